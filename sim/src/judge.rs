//! Deciding one run for one property: execute, compare replicas (C19), keep only
//! violations of clauses the property owns; and delta-debugging of failing plans.

use crate::gen::Gen;
use crate::plan::{Cfg, Step, WFault, N_SET};
use crate::rng::{mix, Rng};
use crate::run::{replay, run, RunOut};
use crate::stats::Stats;

#[derive(Clone, Debug)]
pub struct Violation {
    pub clause: String,
    pub step: usize,
    pub message: String,
}

#[derive(Clone, Debug, Default)]
pub struct Verdict {
    pub violation: Option<Violation>,
    pub foreign: Option<String>,
}

pub const HARD_CAP: usize = 30_000;

/// Replica configurations for C19, derived from the run's own PRNG.
pub fn replicas_for(cfg: &Cfg, rng: &mut Rng) -> Vec<Cfg> {
    let mut out = Vec::new();
    // identical configuration: an uncontrolled source of nondeterminism shows here
    out.push(cfg.clone());
    // H-replicas: other hash seeds everywhere
    for _ in 0..2 {
        let mut c = cfg.clone();
        c.hash_xor = rng.next_u64() | 1;
        out.push(c);
    }
    // L-replica: the same with the log level at trace (sodg evaluates the arguments of its
    // debug!/trace! records only when the level admits them; what it answers must not depend on it)
    {
        let mut c = cfg.clone();
        c.log_level = 5;
        out.push(c);
    }
    // K-replicas: other (N, capacity), at least as large as the plan's
    for _ in 0..2 {
        let mut c = cfg.clone();
        let bigger: Vec<usize> = N_SET.iter().copied().filter(|n| *n >= cfg.n).collect();
        c.n = *rng.pick(&bigger);
        c.cap = match rng.below(3) {
            0 => cfg.cap,
            1 => cfg.cap + rng.range(1, 16),
            _ => rng.range(cfg.cap, 256.max(cfg.cap)),
        };
        c.contract = Some((cfg.contract_n(), cfg.contract_cap()));
        if rng.chance(1, 2) {
            c.hash_xor = rng.next_u64() | 1;
        }
        out.push(c);
    }
    out
}

fn first_diff(a: &[String], b: &[String]) -> Option<(usize, String)> {
    for (i, (x, y)) in a.iter().zip(b.iter()).enumerate() {
        if x != y {
            return Some((i, format!("{x:?} vs {y:?}")));
        }
    }
    if a.len() != b.len() {
        return Some((a.len().min(b.len()), format!("trace lengths {} vs {}", a.len(), b.len())));
    }
    None
}

fn step_of(line: &str) -> usize {
    line.strip_prefix('#')
        .and_then(|r| r.split(' ').next())
        .and_then(|n| n.parse().ok())
        .unwrap_or(0)
}

/// Decide an executed run for `prop`.
pub fn decide(prop: &str, out: &RunOut, cfg: &Cfg, replicas: &[Cfg], stats: &mut Stats) -> Verdict {
    if let Some(f) = &out.failure {
        if f.owners.contains(&prop) {
            return Verdict {
                violation: Some(Violation {
                    clause: f.clause.to_string(),
                    step: f.step,
                    message: f.message.clone(),
                }),
                foreign: None,
            };
        }
        if prop == "C19" {
            // the base run stopped at a clause another property owns. If a replica of the same
            // plan does not stop there in the same way, the behaviour depends on the hash seed or
            // on (N, capacity) — which is C19's business whatever the clause is.
            let upto = &out.plan[..(f.step + 1).min(out.plan.len())];
            for (k, rc) in replicas.iter().enumerate() {
                let r = replay(rc, upto, false);
                stats.bump("replica.executions");
                stats.bump("replica.after_foreign_failure");
                let kind = if rc == cfg {
                    "identical"
                } else if rc.contract.is_some() {
                    "K"
                } else if rc.log_level != cfg.log_level {
                    "L"
                } else {
                    "H"
                };
                let same = matches!(&r.failure, Some(rf) if rf.clause == f.clause && rf.step == f.step);
                if !same {
                    let what = r.failure.as_ref().map_or_else(
                        || "passes".to_string(),
                        |rf| format!("fails {} at step {}", rf.clause, rf.step),
                    );
                    return Verdict {
                        violation: Some(Violation {
                            clause: format!("replica.{kind}.outcome-differs"),
                            step: f.step,
                            message: format!(
                                "base (N={}, cap={}) fails {} at step {} ({}); replica {k} (N={}, cap={}, hash_xor={:#x}) {what}",
                                cfg.n, cfg.cap, f.clause, f.step, f.message, rc.n, rc.cap, rc.hash_xor
                            ),
                        }),
                        foreign: None,
                    };
                }
            }
        }
        return Verdict {
            violation: None,
            foreign: Some(f.clause.to_string()),
        };
    }
    if prop == "C19" {
        for (k, rc) in replicas.iter().enumerate() {
            let r = replay(rc, &out.plan, true);
            stats.bump("replica.executions");
            stats.add("replica.steps", r.steps_done as u64);
            let kind = if rc == cfg {
                "identical"
            } else if rc.contract.is_some() {
                "K"
            } else if rc.log_level != cfg.log_level {
                "L"
            } else {
                "H"
            };
            stats.bump(&format!("replica.{kind}"));
            if let Some(f) = &r.failure {
                // the base run passed; a replica that fails any clause behaves differently
                return Verdict {
                    violation: Some(Violation {
                        clause: format!("replica.{kind}.fails-where-base-passes"),
                        step: f.step,
                        message: format!(
                            "replica {k} (N={}, cap={}, hash_xor={:#x}) fails {}: {}",
                            rc.n, rc.cap, rc.hash_xor, f.clause, f.message
                        ),
                    }),
                    foreign: None,
                };
            }
            if let Some((i, d)) = first_diff(&out.record, &r.record) {
                let step = out.record.get(i).map_or(0, |l| step_of(l));
                return Verdict {
                    violation: Some(Violation {
                        clause: format!("replica.{kind}.trace-differs"),
                        step,
                        message: format!(
                            "base (N={}, cap={}) vs replica {k} (N={}, cap={}, hash_xor={:#x}): {d}",
                            cfg.n, cfg.cap, rc.n, rc.cap, rc.hash_xor
                        ),
                    }),
                    foreign: None,
                };
            }
        }
    }
    Verdict::default()
}

/// Execute a recorded plan and decide it.
pub fn judge_plan(prop: &str, cfg: &Cfg, replicas: &[Cfg], plan: &[Step]) -> (Verdict, RunOut) {
    let out = replay(cfg, plan, prop == "C19");
    let mut st = Stats::default();
    let v = decide(prop, &out, cfg, replicas, &mut st);
    (v, out)
}

pub struct Generated {
    pub out: RunOut,
    pub cfg: Cfg,
    pub replicas: Vec<Cfg>,
    pub verdict: Verdict,
    pub fault_free: bool,
}

/// Run number `run` of the batch `seed` for `prop`: one seed, one execution.
pub fn generate_and_run(prop: &str, seed: u64, run_idx: u64, thorough: bool) -> Generated {
    let s = mix(seed, prop, run_idx);
    let fault_free = prop == "C19" || (run_idx % 4 == 0 && prop != "C07");
    let mut g = Gen::new(s, prop, thorough, fault_free);
    let cfg = g.cfg.clone();
    let mut out = run(&cfg, &mut g, HARD_CAP, prop == "C19");
    let replicas = if prop == "C19" {
        replicas_for(&cfg, &mut g.rng)
    } else {
        Vec::new()
    };
    let mut st = Stats::default();
    let verdict = decide(prop, &out, &cfg, &replicas, &mut st);
    out.stats.merge(&st);
    Generated {
        out,
        cfg,
        replicas,
        verdict,
        fault_free,
    }
}

fn same(a: &Violation, b: &Option<Violation>) -> bool {
    matches!(b, Some(b) if b.clause == a.clause)
}

/// Delta debugging: shrink the plan (and simplify steps and knobs) while the same clause
/// of the same property keeps failing.
pub fn minimise(
    prop: &str,
    cfg: &Cfg,
    replicas: &[Cfg],
    plan: &[Step],
    v: &Violation,
    budget: usize,
) -> (Cfg, Vec<Step>, Violation, usize) {
    let mut in_process = |cfg: &Cfg, cand: &[Step]| -> Option<Violation> {
        let (vd, _) = judge_plan(prop, cfg, replicas, cand);
        if same(v, &vd.violation) {
            vd.violation
        } else {
            None
        }
    };
    minimise_with(cfg, plan, v, budget, &mut in_process)
}

/// The same, with the test supplied by the caller (e.g. one fresh process per candidate).
pub fn minimise_with(
    cfg: &Cfg,
    plan: &[Step],
    v: &Violation,
    budget: usize,
    judge: &mut dyn FnMut(&Cfg, &[Step]) -> Option<Violation>,
) -> (Cfg, Vec<Step>, Violation, usize) {
    let mut cfg = cfg.clone();
    let mut best: Vec<Step> = plan[..(v.step + 1).min(plan.len())].to_vec();
    let mut best_v = v.clone();
    let mut tries = 0;
    let mut test = |cfg: &Cfg, cand: &[Step], tries: &mut usize| -> Option<Violation> {
        *tries += 1;
        judge(cfg, cand)
    };
    // the truncated plan must still fail; otherwise keep the full one
    match test(&cfg, &best, &mut tries) {
        Some(nv) => best_v = nv,
        None => best = plan.to_vec(),
    }
    // 1. drop chunks, halving the chunk size down to single steps, to a fixpoint
    let mut chunk = (best.len() / 2).max(1);
    loop {
        let mut i = 0;
        let mut progressed = false;
        while i < best.len() && tries < budget {
            let end = (i + chunk).min(best.len());
            let mut cand = best[..i].to_vec();
            cand.extend_from_slice(&best[end..]);
            if let Some(nv) = test(&cfg, &cand, &mut tries) {
                best = cand;
                best_v = nv;
                progressed = true;
            } else {
                i += chunk;
            }
        }
        if tries >= budget {
            break;
        }
        if chunk > 1 {
            chunk /= 2;
        } else if !progressed {
            break;
        }
    }
    // 2. simplify steps
    for i in 0..best.len() {
        if tries >= budget {
            break;
        }
        let simpler: Vec<Step> = match &best[i] {
            Step::Save { i: inst, path, fault } if *fault != WFault::None => {
                vec![Step::Save { i: *inst, path: *path, fault: WFault::None }]
            }
            Step::Crash { loss, recover } if !loss.is_empty() => {
                vec![Step::Crash { loss: vec![], recover: recover.clone() }]
            }
            Step::Put { i: inst, v, d } if d.len() > 1 => {
                let short = if d.len() > 9 { 9 } else if d.len() > 8 { 8 } else { 1 };
                vec![Step::Put { i: *inst, v: *v, d: d[..short].to_vec() }]
            }
            Step::Slice { src, v, pred, seeds, keep } if seeds.len() > 2 => {
                vec![Step::Slice { src: *src, v: *v, pred: *pred, seeds: seeds[..2].to_vec(), keep: *keep }]
            }
            _ => vec![],
        };
        for s in simpler {
            let mut cand = best.clone();
            cand[i] = s;
            if let Some(nv) = test(&cfg, &cand, &mut tries) {
                best = cand;
                best_v = nv;
            }
        }
    }
    // 3. simplify knobs
    for k in 0..3 {
        if tries >= budget {
            break;
        }
        let mut c = cfg.clone();
        match k {
            0 => c.write_chunk = 0,
            1 => c.read_chunk = 0,
            _ => c.eintr_every = 0,
        }
        if c != cfg {
            if let Some(nv) = test(&c, &best, &mut tries) {
                cfg = c;
                best_v = nv;
            }
        }
    }
    // final re-execution from scratch
    if let Some(nv) = test(&cfg, &best, &mut tries) {
        best_v = nv;
    }
    (cfg, best, best_v, tries)
}
