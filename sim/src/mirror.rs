//! The real directory behind the simulated disk.
//!
//! sodg's `fs` seam shadows the calls that carry data (`read`, `write`, `File`, `rename`,
//! `remove_file`) and re-exports the rest of `std::fs` unchanged. Whatever goes through the
//! re-exports (`metadata`, `exists`, `copy`, `OpenOptions`, `canonicalize`, …) reaches the real
//! file system. To keep both worlds consistent every process that executes plans works in a
//! private directory on a RAM disk, hands sodg *relative* paths, and `SimDisk` keeps the
//! directory equal to its own content (and folds back what was changed behind its back).

use std::path::{Path, PathBuf};
use std::sync::OnceLock;

static ROOT: OnceLock<Option<PathBuf>> = OnceLock::new();

const DIR: &str = "sodg-sim-mirror";

fn bases() -> Vec<PathBuf> {
    let mut v = Vec::new();
    if let Some(b) = std::env::var_os("VERIF_MIRROR_BASE") {
        v.push(PathBuf::from(b));
    }
    v.push(PathBuf::from("/dev/shm"));
    v.push(crate::batch::verif_dir().join("sim").join("scratch"));
    v
}

/// Create this process's directory and make it the working directory (once). `None` when no
/// directory could be made or `VERIF_NO_MIRROR` is set: the disk is then purely in memory.
pub fn root() -> Option<&'static Path> {
    ROOT.get_or_init(|| {
        if std::env::var_os("VERIF_NO_MIRROR").is_some() {
            return None;
        }
        for b in bases() {
            let d = b.join(DIR).join(format!("p{}", std::process::id()));
            let _ = std::fs::remove_dir_all(&d);
            if std::fs::create_dir_all(&d).is_ok() && std::env::set_current_dir(&d).is_ok() {
                return Some(d);
            }
        }
        eprintln!("sodg-sim: no mirror directory could be made; unseamed file-system queries will see nothing");
        None
    })
    .as_deref()
}

/// Empty the directory (start of every execution).
pub fn wipe() {
    let Some(r) = root() else { return };
    if let Ok(rd) = std::fs::read_dir(r) {
        for e in rd.flatten() {
            let p = e.path();
            if e.file_type().is_ok_and(|t| t.is_dir()) {
                let _ = std::fs::remove_dir_all(&p);
            } else {
                let _ = std::fs::remove_file(&p);
            }
        }
    }
}

/// Remove this process's directory (normal exit).
pub fn cleanup_self() {
    if let Some(Some(r)) = ROOT.get() {
        let _ = std::env::set_current_dir("/");
        let _ = std::fs::remove_dir_all(r);
    }
}

/// Remove the directories of processes that are gone (killed workers cannot clean up).
pub fn sweep_stale() {
    for b in bases() {
        let Ok(rd) = std::fs::read_dir(b.join(DIR)) else { continue };
        for e in rd.flatten() {
            let name = e.file_name().to_string_lossy().into_owned();
            let Some(pid) = name.strip_prefix('p').and_then(|s| s.parse::<u32>().ok()) else { continue };
            if pid != std::process::id() && !Path::new(&format!("/proc/{pid}")).exists() {
                let _ = std::fs::remove_dir_all(e.path());
            }
        }
    }
}

/// Relative paths in arguments and environment are resolved before the working directory moves.
pub fn absolutize_env(vars: &[&str]) {
    let Ok(cwd) = std::env::current_dir() else { return };
    for v in vars {
        if let Some(val) = std::env::var_os(v) {
            let p = PathBuf::from(&val);
            if p.is_relative() && !val.is_empty() {
                std::env::set_var(v, cwd.join(p));
            }
        }
    }
}

pub fn absolutize(arg: &str) -> String {
    let p = Path::new(arg);
    if p.is_relative() {
        if let Ok(cwd) = std::env::current_dir() {
            return cwd.join(p).to_string_lossy().into_owned();
        }
    }
    arg.to_string()
}
