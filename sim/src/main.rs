mod disk;
mod exec;
mod gen;
mod model;
mod obs;
mod plan;
mod rng;
mod run;
mod stats;
mod steps;
mod steps2;
mod view;

use std::collections::BTreeMap;

fn main() {
    let args: Vec<String> = std::env::args().collect();
    obs::install_quiet_panic_hook();
    match args.get(1).map(String::as_str) {
        Some("smoke") => {
            let prop = args[2].clone();
            let n: u64 = args[3].parse().unwrap();
            let seed: u64 = args.get(4).map_or(20_260_926, |s| s.parse().unwrap());
            let mut total = stats::Stats::default();
            let mut fails: BTreeMap<String, (u64, String)> = BTreeMap::new();
            let mut steps = 0;
            let t = std::time::Instant::now();
            for r in 0..n {
                let s = rng::mix(seed, &prop, r);
                let mut g = gen::Gen::new(s, &prop, false, r % 2 == 0);
                let cfg = g.cfg.clone();
                let out = run::run(&cfg, &mut g, 20_000, false);
                steps += out.steps_done;
                total.merge(&out.stats);
                if let Some(f) = out.failure {
                    let e = fails.entry(f.clause.to_string()).or_insert((0, String::new()));
                    e.0 += 1;
                    if e.1.is_empty() {
                        e.1 = format!("run {r} step {} owners {:?}: {}", f.step, f.owners, f.message);
                    }
                }
            }
            eprintln!("{n} runs, {steps} steps, {:?}", t.elapsed());
            for (k, v) in &total.counters {
                eprintln!("  {k} = {v}");
            }
            eprintln!("states(sampled)={} trigrams={}", total.state_sample.len(), total.trigrams.len());
            for (k, (c, m)) in &fails {
                eprintln!("FAIL {k} x{c}: {m}");
            }
        }
        _ => {
            eprintln!("usage: sodg-sim smoke <prop> <runs> [seed]");
            std::process::exit(2);
        }
    }
}
