mod batch;
mod disk;
mod exec;
mod gen;
mod judge;
mod mirror;
mod model;
mod obs;
mod plan;
mod regress;
mod rng;
mod run;
mod selftest;
mod stats;
mod steps;
mod steps2;
mod view;

use std::collections::BTreeMap;
use std::path::Path;

fn usage() -> ! {
    eprintln!(
        "usage: sodg-sim check <PROP> <quick|thorough>\n       sodg-sim replay <file>\n       sodg-sim selftest determinism [seeds]\n       sodg-sim mkregress\n       sodg-sim smoke <PROP> <runs> [seed]"
    );
    std::process::exit(2);
}

/// A logger that admits everything and writes nothing: with it installed, `log::set_max_level`
/// alone decides whether sodg evaluates the arguments of its debug!/trace! records.
struct NullLogger;

impl log::Log for NullLogger {
    fn enabled(&self, _: &log::Metadata) -> bool {
        true
    }
    fn log(&self, record: &log::Record) {
        // format the record (as a real logger would) and drop it
        let _ = format!("{}", record.args());
    }
    fn flush(&self) {}
}

static NULL_LOGGER: NullLogger = NullLogger;

fn main() {
    let code = real_main();
    mirror::cleanup_self();
    std::process::exit(code);
}

fn real_main() -> i32 {
    let mut args: Vec<String> = std::env::args().collect();
    // plans run in a private working directory (mirror.rs): resolve relative paths first
    mirror::absolutize_env(&["VERIF_DIR", "VERIF_EVIDENCE_DIR", "VERIF_WORKER_EXE", "VERIF_MIRROR_BASE"]);
    let path_arg = match args.get(1).map(String::as_str) {
        Some("worker") => Some(7),
        Some("journal") => Some(6),
        Some("exec-plan" | "replay") => Some(2),
        _ => None,
    };
    if let Some(k) = path_arg {
        if let Some(a) = args.get(k).cloned() {
            args[k] = mirror::absolutize(&a);
        }
    }
    let _ = mirror::root();
    obs::install_quiet_panic_hook();
    let _ = log::set_logger(&NULL_LOGGER);
    log::set_max_level(log::LevelFilter::Off);
    match args.get(1).map(String::as_str) {
        Some("check") => {
            let (Some(prop), Some(tier)) = (args.get(2), args.get(3)) else { usage() };
            if !batch::CLAIMED.contains(&prop.as_str()) {
                eprintln!("property {prop} is not claimed (see MANIFEST.json not_applicable)");
                std::process::exit(2);
            }
            mirror::sweep_stale();
            let code = batch::check(prop, tier).exit;
            mirror::sweep_stale();
            return code;
        }
        Some("worker") => {
            let prop = &args[2];
            let tier = &args[3];
            let seed: u64 = args[4].parse().unwrap();
            let from: u64 = args[5].parse().unwrap();
            let to: u64 = args[6].parse().unwrap();
            let only = args
                .get(8)
                .map(|s| s.split(',').filter_map(|x| x.parse().ok()).collect::<Vec<u64>>());
            batch::worker(prop, tier, seed, from, to, Path::new(&args[7]), only);
        }
        Some("journal") => {
            // one run, every step journalled before it is executed
            let prop = &args[2];
            let thorough = args[3] == "thorough";
            let seed: u64 = args[4].parse().unwrap();
            let run_idx: u64 = args[5].parse().unwrap();
            let s = rng::mix(seed, prop, run_idx);
            let fault_free = prop == "C19" || (run_idx % 4 == 0 && prop != "C07");
            let mut g = gen::Gen::new(s, prop, thorough, fault_free);
            let cfg = g.cfg.clone();
            use std::io::Write;
            let mut file = std::fs::File::create(&args[6]).unwrap();
            writeln!(file, "{}", serde_json::to_string(&cfg).unwrap()).unwrap();
            file.flush().unwrap();
            let mut j = run::Journal { inner: &mut g, file };
            let out = run::run(&cfg, &mut j, judge::HARD_CAP, false);
            let _ = out;
        }
        Some("exec-plan") => {
            let txt = std::fs::read_to_string(&args[2]).unwrap();
            let r: plan::Replay = serde_json::from_str(&txt).unwrap();
            let out = run::replay(&r.cfg, &r.plan, false);
            let _ = out;
        }
        Some("replay") => {
            let Some(f) = args.get(2) else { usage() };
            return batch::replay_file(Path::new(f));
        }
        Some("selftest") => match args.get(2).map(String::as_str) {
            Some("determinism") => {
                let n = args.get(3).and_then(|s| s.parse().ok()).unwrap_or(2_000);
                return selftest::determinism(n);
            }
            Some("chunk") => {
                let from: u64 = args[4].parse().unwrap();
                let to: u64 = args[5].parse().unwrap();
                return selftest::chunk(&args[3], from, to);
            }
            Some("trace") => {
                // helper of the determinism self-test: print the event-log hashes of a range
                let prop = &args[3];
                let seed: u64 = args[4].parse().unwrap();
                let from: u64 = args[5].parse().unwrap();
                let to: u64 = args[6].parse().unwrap();
                for r in from..to {
                    let g = judge::generate_and_run(prop, seed, r, false);
                    println!("{prop} {seed} {r} {:016x} {}", g.out.trace, g.out.steps_done);
                }
            }
            _ => usage(),
        },
        Some("mkregress") => regress::write_all(),
        Some("smoke") => {
            let prop = args[2].clone();
            let n: u64 = args[3].parse().unwrap();
            let seed: u64 = args.get(4).map_or(batch::DEFAULT_SEED, |s| s.parse().unwrap());
            let mut total = stats::Stats::default();
            let mut fails: BTreeMap<String, (u64, String)> = BTreeMap::new();
            let mut steps = 0;
            let t = std::time::Instant::now();
            for r in 0..n {
                let g = judge::generate_and_run(&prop, seed, r, false);
                steps += g.out.steps_done;
                total.merge(&g.out.stats);
                if let Some(f) = g.out.failure {
                    let e = fails.entry(f.clause.to_string()).or_insert((0, String::new()));
                    e.0 += 1;
                    if e.1.is_empty() {
                        e.1 = format!("run {r} step {} owners {:?}: {}", f.step, f.owners, f.message);
                    }
                }
                if let Some(v) = g.verdict.violation {
                    let e = fails.entry(format!("VERDICT {}", v.clause)).or_insert((0, String::new()));
                    e.0 += 1;
                    if e.1.is_empty() {
                        e.1 = format!("run {r} step {}: {}", v.step, v.message);
                    }
                }
            }
            eprintln!("{n} runs, {steps} steps, {:?}", t.elapsed());
            for (k, v) in &total.counters {
                eprintln!("  {k} = {v}");
            }
            eprintln!("states(sampled)={} trigrams={}", total.state_sample.len(), total.trigrams.len());
            for (k, (c, m)) in &fails {
                eprintln!("FAIL {k} x{c}: {m}");
            }
        }
        _ => usage(),
    }
    0
}
