//! The seeded workload and fault generator. It looks only at the reference
//! models and the harness's knowledge of the disk (`View`), never at the
//! implementation, and writes every decision into the step it returns.

use crate::model::{RefGraph, MAX_GROUP, MAX_GROUPS};
use crate::plan::{Cfg, Damage, Id, Loss, Oob, PLabel, Pred, RFault, SCmd, SId, Step, WFault, N_SET};
use crate::rng::Rng;
use crate::steps2::{merge_precheck, pred_accepts};
use crate::view::{OnDisk, View, PATHS};
use std::collections::VecDeque;

#[derive(Clone, Copy, Debug, PartialEq, Eq, PartialOrd, Ord)]
pub enum Kind {
    Add,
    AddNext,
    NextOnly,
    Bind,
    Put,
    Data,
    Clone,
    CloneLinked,
    DropInst,
    Save,
    SaveLoadLinked,
    SaveCut,
    Load,
    Crash,
    Slice,
    Merge,
    Script,
    Reseed,
    DrainClone,
    Cycle,
    Oob,
    Damage,
    NewInst,
    Unlink,
    BigGroup,
    RejectedMerge,
    SaveReadSave,
    JoinMerge,
    FullVertex,
    Storm,
    DeepMerge,
    Sacrifice,
}

const KINDS: [Kind; 32] = [
    Kind::Add,
    Kind::AddNext,
    Kind::NextOnly,
    Kind::Bind,
    Kind::Put,
    Kind::Data,
    Kind::Clone,
    Kind::CloneLinked,
    Kind::DropInst,
    Kind::Save,
    Kind::SaveLoadLinked,
    Kind::SaveCut,
    Kind::Load,
    Kind::Crash,
    Kind::Slice,
    Kind::Merge,
    Kind::Script,
    Kind::Reseed,
    Kind::DrainClone,
    Kind::Cycle,
    Kind::Oob,
    Kind::Damage,
    Kind::NewInst,
    Kind::Unlink,
    Kind::BigGroup,
    Kind::RejectedMerge,
    Kind::SaveReadSave,
    Kind::JoinMerge,
    Kind::FullVertex,
    Kind::Storm,
    Kind::DeepMerge,
    Kind::Sacrifice,
];

fn base_weights(prop: &str) -> Vec<(Kind, u32)> {
    use Kind::*;
    let core = vec![(Add, 10), (AddNext, 4), (Bind, 16), (Put, 11), (Data, 12), (BigGroup, 1), (FullVertex, 1), (Storm, 1)];
    let mut w = core;
    if !matches!(prop, "C07" | "C09" | "C19") {
        w.push((Sacrifice, 1));
    }
    match prop {
        "C01" => w.extend([
            (NextOnly, 1), (Clone, 2), (DropInst, 1), (Save, 2), (SaveLoadLinked, 1), (Load, 1), (Crash, 1),
            (Slice, 2), (Merge, 1), (Script, 1), (DrainClone, 1), (NewInst, 1), (Cycle, 1), (RejectedMerge, 1),
            (SaveReadSave, 1),
        ]),
        "C02" => w.extend([
            (Clone, 1), (Save, 1), (Load, 1), (Crash, 1), (DrainClone, 2), (Cycle, 2), (NextOnly, 1), (Merge, 1),
        ]),
        "C03" => w.extend([
            (Bind, 10), (Clone, 1), (Save, 1), (Load, 1), (Crash, 1), (DrainClone, 2), (Cycle, 1), (Put, 4), (Data, 4),
            (Merge, 1),
        ]),
        "C04" => w.extend([
            (Add, 14), (Cycle, 4), (Save, 1), (Load, 1), (Crash, 1), (DrainClone, 1), (AddNext, 3), (NextOnly, 1),
            (Merge, 1),
        ]),
        "C05" => w.extend([
            (AddNext, 10), (NextOnly, 6), (Clone, 3), (CloneLinked, 1), (DropInst, 1), (Merge, 2), (Script, 3),
            (Save, 1), (Load, 1), (Crash, 1), (Cycle, 2), (RejectedMerge, 1),
        ]),
        "C06" => w.extend([(Cycle, 30), (Save, 1), (Load, 1), (Crash, 1), (Merge, 1), (Slice, 2), (Clone, 2), (NewInst, 1), (DropInst, 1)]),
        "C07" => w.extend([
            (NextOnly, 1), (Clone, 2), (DropInst, 2), (Save, 3), (Load, 3), (Crash, 1), (Slice, 2), (Merge, 1),
            (Script, 1), (Oob, 5), (Damage, 3), (NewInst, 1), (Cycle, 2), (DrainClone, 1), (JoinMerge, 1),
        ]),
        "C08" => w.extend([
            (Save, 4), (SaveLoadLinked, 4), (Load, 3), (Crash, 3), (Clone, 1), (DropInst, 1), (Merge, 1),
            (DrainClone, 1), (Cycle, 2), (NextOnly, 1), (Unlink, 1), (SaveReadSave, 2),
        ]),
        "C09" => w.extend([(SaveCut, 4), (Save, 3), (Load, 2), (Crash, 2), (Cycle, 2), (Merge, 1), (Clone, 1), (SaveReadSave, 1)]),
        "C10" => w.extend([
            (Clone, 4), (CloneLinked, 5), (DropInst, 2), (Unlink, 1), (NextOnly, 2), (Merge, 1), (Cycle, 2),
            (Save, 1), (Load, 1), (DrainClone, 1), (Slice, 2), (NewInst, 2),
        ]),
        "C11" => w.extend([(Merge, 6), (Save, 1), (Load, 1), (Crash, 1), (DrainClone, 1), (RejectedMerge, 1), (DeepMerge, 1)]),
        "C13" => w.extend([(Slice, 10), (Bind, 8), (Reseed, 1), (Clone, 1), (Cycle, 1), (Put, 0)]),
        "C19" => w.extend([
            (Slice, 4), (Merge, 3), (Reseed, 2), (NextOnly, 2), (Clone, 1), (Save, 1), (Load, 1), (Script, 1),
            (Cycle, 2), (DrainClone, 1), (RejectedMerge, 1), (NewInst, 2), (CloneLinked, 1),
        ]),
        _ => {}
    }
    w
}

#[derive(Clone, Debug)]
enum Mode {
    Free,
    /// build two trees, merge them, continue (C11)
    MergeEp {
        g: usize,
        h: usize,
        phase: u8,
        grow_g: usize,
        grow_h: usize,
        prehistory: bool,
        restart_before: bool,
        restart_after: bool,
        reads: usize,
        /// the right graph gets an unreachable extra vertex and no data: sodg rejects the merge
        reject: bool,
        /// the right graph has an earlier generation that was read to death (recycled ids in h)
        pre_h: bool,
    },
}

pub struct Gen {
    pub rng: Rng,
    pub prop: String,
    pub cfg: Cfg,
    weights: Vec<u32>,
    alphabet: Vec<PLabel>,
    lens: Vec<usize>,
    pub max_steps: usize,
    queue: VecDeque<Step>,
    mode: Mode,
    emitted: usize,
    finale: u8,
    put_counter: u64,
    fault_pct: usize,
    wkinds: Vec<u8>,
    crash_power_loss: bool,
    max_insts: usize,
    faults_enabled: bool,
    cycles_left: usize,
    bg_groups: usize,
    /// warm-up cycles that leave their group alive (runs under group-slot pressure)
    pressure_left: usize,
    thorough: bool,
    /// the right tree of the current merge episode gets a root with 12 to 15 kids
    wide_h: bool,
}

pub fn pick_cfg(rng: &mut Rng, prop: &str, tier_thorough: bool) -> Cfg {
    let n = *rng.pick(&N_SET);
    let cap = match prop {
        "C06" => rng.range(32, if tier_thorough { 256 } else { 96 }),
        "C11" => rng.range(4, 40),
        _ => {
            if rng.chance(1, 40) {
                // images beyond 64 KiB, allocator positions in the hundreds
                rng.range(1_400, 2_400)
            } else if rng.chance(50, 100) {
                rng.range(2, 16)
            } else if rng.chance(80, 100) {
                rng.range(17, 80)
            } else {
                rng.range(65, 256)
            }
        }
    };
    Cfg {
        n,
        cap,
        hash_seed: rng.next_u64(),
        // (images of big graphs are not written a few bytes at a time: a storm of saves would take minutes)
        write_chunk: if rng.chance(1, 3) { rng.range(1, 300) * if cap >= 1_000 { 64 } else { 1 } } else { 0 },
        read_chunk: if rng.chance(1, 3) { rng.range(1, 300) * if cap >= 1_000 { 64 } else { 1 } } else { 0 },
        eintr_every: if rng.chance(1, 4) { rng.range(1, 9) } else { 0 },
        hash_xor: 0,
        contract: None,
        adopt_alive: false,
        blind: false,
        judge: None,
        log_level: 0,
        sweep_every: 0,
    }
}

impl Gen {
    pub fn new(seed: u64, prop: &str, thorough: bool, fault_free: bool) -> Self {
        let mut rng = Rng::new(seed);
        // C07 quantifies over every call sequence: one run in six takes the churn profile of C06
        // (long histories with the slot table full), with caller faults mixed in
        let profile = if prop == "C07" && rng.chance(1, 6) { "C06" } else { prop };
        let mut cfg = pick_cfg(&mut rng, profile, thorough);
        cfg.adopt_alive = matches!(prop, "C01" | "C03" | "C05" | "C07");
        cfg.judge = Some(prop.to_string());
        // how often the full read-only sweep runs (an observer that looks after every step keeps
        // caches inside the code under test warm)
        cfg.sweep_every = match rng.below(10) {
            0 => 7,
            1 => 64,
            2 => 100_000,
            _ => 1,
        };
        // half of those runs do not even ask keys() in between
        cfg.blind = cfg.sweep_every > 1 && rng.chance(1, 2);
        // swarm: every kind keeps its base weight, is damped, or is switched off
        let mut base = base_weights(profile);
        if profile != prop {
            // (caller faults come through the Sacrifice episode here: the churning graph itself stays judged)
            base.extend([(Kind::Damage, 1)]);
        }
        let mut weights = vec![0_u32; KINDS.len()];
        for (k, w) in base {
            let i = KINDS.iter().position(|x| *x == k).unwrap();
            weights[i] += w;
        }
        for (i, w) in weights.iter_mut().enumerate() {
            let essential = matches!(KINDS[i], Kind::Add | Kind::Bind | Kind::Put | Kind::Data);
            let r = rng.below(10);
            if !essential && r == 0 {
                *w = 0;
            } else if r <= 2 {
                *w = (*w + 1) / 2;
            } else if r == 9 {
                *w *= 2;
            }
        }
        let faults_enabled = !fault_free;
        if !faults_enabled {
            for (i, w) in weights.iter_mut().enumerate() {
                if matches!(KINDS[i], Kind::Crash | Kind::Damage | Kind::Oob | Kind::Sacrifice) {
                    *w = 0;
                }
            }
        }
        // label alphabet: 2..=8 values from all three variants
        let pool = [
            PLabel::A(0),
            PLabel::A(1),
            PLabel::A(2),
            PLabel::A(17),
            PLabel::G('x'),
            PLabel::G('φ'),
            PLabel::G('ρ'),
            PLabel::G('𝜑'),
            PLabel::G('\u{10FFFF}'),
            PLabel::G('-'),
            PLabel::S("foo".into()),
            PLabel::S("bar".into()),
            PLabel::S("héllo".into()),
            PLabel::S("abcdefgh".into()),
            PLabel::S("xy".into()),
            PLabel::A(usize::MAX),
            PLabel::S("a x".into()),
            PLabel::S("a y".into()),
            PLabel::S("a".into()),
            PLabel::S("ax".into()),
            PLabel::S(" ax".into()),
            // two texts that differ in one character only, by exactly 0x10000 (U+1D711 / U+D711)
            PLabel::S("𝜑z".into()),
            PLabel::S("휑z".into()),
            PLabel::G('σ'),
        ];
        let mut alphabet: Vec<PLabel> = pool.to_vec();
        rng.shuffle(&mut alphabet);
        let asize = rng.range(2, 8).max(cfg.n.min(8));
        alphabet.truncate(asize.min(pool.len()));
        // labels that are easily confused come in pairs
        for (x, y) in [("𝜑z", "휑z"), ("a x", "ax"), ("a x", "a y"), ("ax", " ax")] {
            let (px, py) = (PLabel::S(x.into()), PLabel::S(y.into()));
            if alphabet.contains(&px) && !alphabet.contains(&py) {
                alphabet.push(py);
            } else if alphabet.contains(&py) && !alphabet.contains(&px) {
                alphabet.push(px);
            }
        }
        let all_lens = [0_usize, 1, 7, 8, 9, 16, 40];
        let mut lens: Vec<usize> = all_lens.iter().copied().filter(|_| rng.chance(2, 3)).collect();
        // now and then a datum whose length needs a second byte (255, 256, 300)
        for big in [255_usize, 256, 300] {
            if rng.chance(1, 8) {
                lens.push(big);
            }
        }
        if lens.is_empty() {
            lens = vec![8, 9];
        }
        let max_steps = match profile {
            "C06" => {
                if thorough {
                    rng.range(400, 6_000)
                } else {
                    rng.range(200, 1_200)
                }
            }
            "C09" => rng.range(10, 120),
            _ => {
                if thorough && rng.chance(1, 4) {
                    rng.range(200, 1_000)
                } else {
                    rng.range(20, 400)
                }
            }
        };
        let fault_pct = if faults_enabled { rng.range(0, 20) } else { 0 };
        let mut wkinds: Vec<u8> = (0..5).filter(|_| rng.chance(2, 3)).collect();
        if wkinds.is_empty() {
            wkinds.push(3);
        }
        let bg_groups = rng.below(14);
        let pressure = cfg.cap >= 40 && rng.chance(1, 3);
        let pressure_left = if pressure { rng.range(10, 14) } else { 0 };
        Self {
            prop: prop.to_string(),
            cfg,
            weights,
            alphabet,
            lens,
            max_steps,
            queue: VecDeque::new(),
            mode: Mode::Free,
            emitted: 0,
            finale: 0,
            put_counter: 0,
            fault_pct,
            wkinds,
            crash_power_loss: rng.chance(1, 2),
            max_insts: rng.range(1, 4),
            faults_enabled,
            cycles_left: 0,
            bg_groups: if pressure { 13 } else { bg_groups },
            pressure_left,
            thorough,
            wide_h: false,
            rng,
        }
    }

    fn data_bytes(&mut self) -> Vec<u8> {
        self.put_counter += 1;
        let len = *self.rng.pick(&self.lens);
        let c = self.put_counter.to_le_bytes();
        let mut d: Vec<u8> = (0..len).map(|i| c[i % 8] ^ ((i / 8) as u8).wrapping_mul(31)).collect();
        // values, not only lengths: all byte values, extremes, text
        match self.rng.below(12) {
            0 => {
                let mut x = self.put_counter.wrapping_mul(0x9E37_79B9_7F4A_7C15);
                for b in &mut d {
                    x ^= x >> 29;
                    x = x.wrapping_mul(0xBF58_476D_1CE4_E5B9);
                    *b = (x >> 56) as u8;
                }
            }
            1 => d.iter_mut().for_each(|b| *b = 0xFF),
            2 => {
                // all zeros, now and then of a length around 255 (runs of zeros of a particular length)
                if self.rng.chance(1, 2) {
                    d = vec![0; self.rng.range(230, 270)];
                }
                d.iter_mut().for_each(|b| *b = 0x00);
            }
            3 => {
                let text = "привет, мир! 図形 𝜑 hello".as_bytes();
                for (i, b) in d.iter_mut().enumerate() {
                    *b = text[i % text.len()];
                }
            }
            4 => d.iter_mut().for_each(|b| *b = 0x80),
            _ => {}
        }
        d
    }

    fn label(&mut self) -> PLabel {
        self.rng.pick(&self.alphabet).clone()
    }

    fn pick_present(&mut self, m: &RefGraph) -> Option<usize> {
        if m.present.is_empty() {
            return None;
        }
        let k = self.rng.below(m.present.len());
        m.present.keys().nth(k).copied()
    }

    fn pick_absent(&mut self, m: &RefGraph) -> Option<usize> {
        // prefer recycled ids, then fresh ones; uniform fallback
        let collected: Vec<usize> = m
            .collected_ever
            .iter()
            .copied()
            .filter(|v| !m.is_present(*v) && *v < m.cap)
            .collect();
        if !collected.is_empty() && self.rng.chance(1, 2) {
            return Some(*self.rng.pick(&collected));
        }
        for _ in 0..8 {
            let v = self.rng.below(m.cap);
            if !m.is_present(v) {
                return Some(v);
            }
        }
        (0..m.cap).find(|v| !m.is_present(*v))
    }

    fn wfault(&mut self, size_hint: usize) -> WFault {
        if self.prop == "C19" && self.rng.chance(1, 8) {
            // the two write faults whose specified outcome does not depend on the size of the image
            // (and so not on N or the capacity): save() must answer Err in every replica
            return if self.rng.chance(1, 2) { WFault::OpenFail } else { WFault::FailAfterTrunc };
        }
        if !self.faults_enabled || !self.rng.chance(self.fault_pct, 100) {
            return WFault::None;
        }
        let k = self.rng.below(size_hint.max(1) + 8);
        match *self.rng.pick(&self.wkinds) {
            0 => WFault::OpenFail,
            1 => WFault::FailAfterTrunc,
            2 => WFault::Short(k),
            3 => WFault::CrashMid(k),
            _ => WFault::CrashAfter,
        }
    }

    fn size_hint(&self, view: &View) -> usize {
        view.paths.iter().map(|p| p.size).max().unwrap_or(0).max(64 + view.cfg.cap * 40)
    }

    fn crash_step(&mut self, view: &View) -> Step {
        let mut loss = Vec::new();
        for (p, pv) in view.paths.iter().enumerate() {
            if pv.unsynced && self.crash_power_loss {
                let l = match self.rng.below(6) {
                    0 => Loss::Old,
                    1 => Loss::Empty,
                    2 => Loss::Prefix(self.rng.below(pv.size.max(1))),
                    _ => Loss::Keep,
                };
                loss.push((p, l));
            }
        }
        let mut recover = Vec::new();
        let mut slot = 0;
        for p in 0..PATHS {
            let pv = &view.paths[p];
            let want = match pv.now {
                OnDisk::Complete(_) => self.rng.chance(4, 5),
                OnDisk::Missing => self.rng.chance(1, 10),
                _ => self.rng.chance(1, 2),
            };
            if want && slot < self.max_insts.max(1) {
                recover.push((p, slot));
                slot += 1;
            }
        }
        Step::Crash { loss, recover }
    }

    pub fn next(&mut self, view: &View) -> Option<Step> {
        if view.must_crash {
            self.queue.clear();
            self.emitted += 1;
            return Some(self.crash_step(view));
        }
        if let Some(s) = self.queue.pop_front() {
            self.emitted += 1;
            return Some(s);
        }
        if self.emitted >= self.max_steps {
            return self.finale_step(view);
        }
        for _ in 0..40 {
            let s = match self.mode.clone() {
                Mode::Free => self.free_step(view),
                Mode::MergeEp { .. } => self.merge_ep_step(view),
            };
            if let Some(s) = s {
                self.emitted += 1;
                return Some(s);
            }
        }
        // nothing applicable: make sure there is at least one graph
        self.emitted += 1;
        match view.free_slot() {
            Some(i) if view.targets().is_empty() => Some(Step::Empty { i }),
            _ => self.finale_step(view),
        }
    }

    fn finale_step(&mut self, view: &View) -> Option<Step> {
        // end-of-run drain probes: first on clones (the graph survives), then in place
        let targets = view.targets();
        loop {
            let k = self.finale as usize;
            self.finale = self.finale.saturating_add(1);
            if k < targets.len() {
                let i = targets[k];
                if view.insts[i].as_ref().unwrap().poisoned && self.prop != "C07" {
                    continue;
                }
                return Some(Step::Drain { i, on_clone: false, order: self.rng.next_u64() });
            }
            return None;
        }
    }

    fn free_step(&mut self, view: &View) -> Option<Step> {
        let targets = view.targets();
        if targets.is_empty() {
            // after a crash with nothing recovered, or at the very start
            let complete: Vec<usize> = (0..PATHS).filter(|p| view.paths[*p].now.is_complete()).collect();
            if !complete.is_empty() && self.rng.chance(1, 2) {
                let dst = view.free_slot()?;
                return Some(Step::Load { path: *self.rng.pick(&complete), dst, fault: RFault::None, link: None });
            }
            return Some(Step::Empty { i: view.free_slot()? });
        }
        if self.pressure_left > 0 {
            // group-slot pressure: first fill the slot table with groups that stay alive
            let i = targets[0];
            let mi = &view.insts[i].as_ref().unwrap().m;
            if !mi.adoptive && mi.groups_alive() < MAX_GROUPS {
                self.pressure_left -= 1;
                if let Some(s) = self.cycle_with(view, i, Some(true)) {
                    return Some(s);
                }
            } else {
                self.pressure_left = 0;
            }
        }
        let kind = KINDS[self.rng.weighted(&self.weights)];
        let i = *self.rng.pick(&targets);
        let inst = view.insts[i].as_ref().unwrap();
        let m = &inst.m;
        if m.adoptive
            && !matches!(
                kind,
                Kind::Put | Kind::Data | Kind::Clone | Kind::DropInst | Kind::Save | Kind::Slice | Kind::DrainClone | Kind::Reseed | Kind::Load | Kind::Crash | Kind::Storm
            )
        {
            return None;
        }
        match kind {
            Kind::Add => {
                let v = match self.rng.below(10) {
                    0..=5 => self.pick_absent(m)?,
                    _ => self.pick_present(m).or_else(|| self.pick_absent(m))?,
                };
                Some(Step::Add { i, v: view.name(v) })
            }
            Kind::AddNext => {
                let var = view.fresh_var();
                self.queue.push_back(Step::Add { i, v: Id::V(var) });
                Some(Step::NextId { i, var })
            }
            Kind::NextOnly => {
                if m.cap >= 300 && !m.adoptive && self.rng.chance(1, 4) {
                    // ids handed out and left unused, then a long run of vertices added by the caller
                    // right at the allocator position, then the allocator has to step over the run
                    let a = *self.rng.pick(&[0_usize, 1, 63, 130, 140, 200]);
                    let run = *self.rng.pick(&[1_usize, 64, 127, 128, 129, 130, 200]);
                    let mut pos = inst.next_v;
                    for _ in 0..a {
                        while m.is_present(pos) {
                            pos += 1;
                        }
                        pos += 1;
                    }
                    if pos + run + 8 < m.cap {
                        let var = view.fresh_var();
                        for _ in 0..a {
                            self.queue.push_back(Step::NextId { i, var });
                        }
                        for v in pos..pos + run {
                            if !m.is_present(v) {
                                self.queue.push_back(Step::Add { i, v: Id::L(v) });
                            }
                        }
                        for _ in 0..3 {
                            self.queue.push_back(Step::NextId { i, var });
                        }
                        return self.queue.pop_front();
                    }
                }
                Some(Step::NextId { i, var: view.fresh_var() })
            }
            Kind::Bind => {
                for _ in 0..8 {
                    let (a, mut b) = (self.pick_present(m)?, self.pick_present(m)?);
                    let l = if !m.present[&a].edges.is_empty() && self.rng.chance(2, 5) {
                        let k = self.rng.below(m.present[&a].edges.len());
                        // now and then the very same edge again: same label, same target (which may
                        // have died and come back since the edge was made)
                        let t = m.present[&a].edges[k].1;
                        if t != a && m.is_present(t) && self.rng.chance(1, 2) {
                            b = t;
                        }
                        m.present[&a].edges[k].0.clone()
                    } else {
                        self.label()
                    };
                    if m.can_bind(a, b, &l) {
                        return Some(Step::Bind { i, a: view.name(a), b: view.name(b), l });
                    }
                }
                None
            }
            Kind::Put => {
                let v = self.pick_present(m)?;
                let mut d = self.data_bytes();
                if let (Some(cur), true) = (&m.present[&v].data, self.rng.chance(1, 6)) {
                    // a datum related to the one the vertex holds: identical, longer or shorter by
                    // trailing zero bytes, cut, or with one byte changed
                    d = cur.clone();
                    match self.rng.below(6) {
                        0 => {}
                        1 => d.push(0),
                        2 => {
                            while d.last() == Some(&0) {
                                d.pop();
                            }
                        }
                        3 => {
                            d.pop();
                        }
                        4 => {
                            if let Some(b) = d.first_mut() {
                                *b ^= 0x40;
                            }
                        }
                        _ => d.extend_from_slice(&[0, 0, 0]),
                    }
                }
                if self.rng.chance(1, 8) {
                    // both encodings of the same bytes are legal values of the public enum
                    let enc = if d.len() <= 8 && self.rng.chance(1, 2) { 2 } else { 1 };
                    return Some(Step::PutRaw { i, v: view.name(v), d, enc });
                }
                Some(Step::Put { i, v: view.name(v), d })
            }
            Kind::Data => {
                let unread = m.unread_ids();
                let v = if !unread.is_empty() && self.rng.chance(3, 5) {
                    *self.rng.pick(&unread)
                } else {
                    self.pick_present(m)?
                };
                Some(Step::Data { i, v: view.name(v) })
            }
            Kind::Clone | Kind::CloneLinked => {
                if self.rng.chance(1, 5) {
                    // clone_from() into a graph that exists and was used
                    let others: Vec<usize> = targets
                        .iter()
                        .copied()
                        .filter(|j| {
                            *j != i && view.followers(*j).is_empty() && {
                                let o = view.insts[*j].as_ref().unwrap();
                                !o.poisoned && !o.m.adoptive && !m.adoptive
                            }
                        })
                        .collect();
                    if let Some(dst) = others.first() {
                        // now and then both graphs first get the same short datum on the same
                        // vertex, inline in one and heap-encoded in the other
                        let dm = &view.insts[*dst].as_ref().unwrap().m;
                        let shared: Vec<usize> = m.present.keys().copied().filter(|v| dm.is_present(*v) && m.can_put(*v) && dm.can_put(*v)).collect();
                        if !shared.is_empty() && self.rng.chance(1, 2) {
                            let v = *self.rng.pick(&shared);
                            let n = 1 + self.rng.below(8);
                            let d: Vec<u8> = (0..n).map(|_| self.rng.below(256) as u8).collect();
                            let (x, y) = if self.rng.chance(1, 2) { (i, *dst) } else { (*dst, i) };
                            self.queue.push_back(Step::PutRaw { i: y, v: Id::L(v), d: d.clone(), enc: 1 });
                            self.queue.push_back(Step::CloneFrom { src: i, dst: *dst });
                            return Some(Step::Put { i: x, v: Id::L(v), d });
                        }
                        return Some(Step::CloneFrom { src: i, dst: *dst });
                    }
                }
                if view.live().len() >= self.max_insts.max(2) + 1 {
                    return None;
                }
                let dst = view.free_slot()?;
                let link = kind == Kind::CloneLinked && view.followers(i).is_empty();
                Some(Step::Clone { src: i, dst, link })
            }
            Kind::Unlink => {
                let f = view.followers(i);
                let (j, _) = f.first()?;
                Some(Step::Unlink { i: *j })
            }
            Kind::DropInst => {
                if view.live().len() < 2 {
                    return None;
                }
                let live = view.live();
                Some(Step::Drop { i: *self.rng.pick(&live) })
            }
            Kind::NewInst => {
                if view.live().len() >= self.max_insts {
                    return None;
                }
                if self.rng.chance(1, 3) {
                    // a graph of another capacity next to the others (clone_from and merge across capacities)
                    let cap = if self.rng.chance(1, 2) { view.cfg.cap + self.rng.range(1, 60) } else { self.rng.range(2, view.cfg.cap.max(2)) };
                    return Some(Step::EmptyCap { i: view.free_slot()?, cap: cap.min(300) });
                }
                Some(Step::Empty { i: view.free_slot()? })
            }
            Kind::Save => {
                if inst.age == 0 {
                    return None;
                }
                let path = self.rng.below(PATHS);
                let fault = self.wfault(self.size_hint(view));
                Some(Step::Save { i, path, fault })
            }
            Kind::SaveLoadLinked => {
                if inst.age == 0 || !view.followers(i).is_empty() {
                    return None;
                }
                let dst = view.free_slot()?;
                let path = self.rng.below(PATHS);
                self.queue.push_back(Step::Load { path, dst, fault: RFault::None, link: Some(i) });
                Some(Step::Save { i, path, fault: WFault::None })
            }
            Kind::SaveCut => {
                if inst.age == 0 {
                    return None;
                }
                let path = self.rng.below(PATHS);
                let hint = self.size_hint(view);
                let sample = if hint > if self.thorough { 16_384 } else { 4_096 } {
                    (0..1024).map(|_| self.rng.below(1 << 20)).collect()
                } else {
                    Vec::new()
                };
                self.queue.push_back(Step::CutAll { path, sample });
                Some(Step::Save { i, path, fault: WFault::None })
            }
            Kind::Load => {
                let dst = view.free_slot()?;
                if view.live().len() >= self.max_insts + 1 {
                    return None;
                }
                let path = self.rng.below(PATHS);
                let fault = if self.prop == "C19" && self.rng.chance(1, 10) {
                    RFault::Enoent
                } else if self.faults_enabled && self.rng.chance(self.fault_pct, 100) {
                    if self.rng.chance(1, 2) {
                        RFault::Eio(self.rng.below(view.paths[path].size + 2))
                    } else {
                        RFault::Enoent
                    }
                } else {
                    RFault::None
                };
                Some(Step::Load { path, dst, fault, link: None })
            }
            Kind::Crash => {
                if self.emitted < 3 || !view.paths.iter().any(|p| !matches!(p.now, OnDisk::Missing)) {
                    return None;
                }
                Some(self.crash_step(view))
            }
            Kind::Reseed => Some(Step::Reseed { seed: self.rng.next_u64() }),
            Kind::DrainClone => {
                if m.unread_ids().is_empty() {
                    return None;
                }
                view.free_slot()?;
                Some(Step::Drain { i, on_clone: true, order: self.rng.next_u64() })
            }
            Kind::Slice => {
                let v = self.pick_present(m)?;
                let pred = match self.rng.below(10) {
                    9 => Pred::Nested(self.rng.chance(1, 2)),
                    8 => Pred::PanicAt(self.rng.range(1, 4) as u8),
                    0..=2 => Pred::All,
                    3 => Pred::None,
                    4 => Pred::Hash(self.rng.next_u64(), self.rng.range(1, 7) as u8),
                    5 => Pred::NotClass(self.rng.below(3) as u8),
                    6 => Pred::ToParity(self.rng.chance(1, 2)),
                    _ => Pred::FromParity(self.rng.chance(1, 2)),
                };
                let has_clone_twin = view.followers(i).iter().any(|(_, k)| *k == crate::view::LinkKind::Clone);
                match m.closure(v, &|f, t, l| pred_accepts(pred, f, t, l)) {
                    Some(c) if c.len() <= 14 => {}
                    // outside C13's domain: only worth a step when a clone twin answers it too (C10)
                    _ if has_clone_twin => {}
                    _ => return None,
                }
                let n = self.rng.range(2, if self.thorough { 12 } else { 6 });
                let seeds = (0..n).map(|_| self.rng.next_u64()).collect();
                let keep = if self.rng.chance(1, 3) && view.live().len() <= self.max_insts { view.free_slot() } else { None };
                Some(Step::Slice { src: i, v: view.name(v), pred, seeds, keep })
            }
            Kind::Merge => {
                // needs two free slots for its own pair of trees
                let free: Vec<usize> = (0..view.insts.len()).filter(|k| view.insts[*k].is_none()).collect();
                if free.len() < 2 {
                    return None;
                }
                self.wide_h = view.cfg.n >= 13 && self.rng.chance(1, 5);
                let wide = self.wide_h;
                self.mode = Mode::MergeEp {
                    g: free[0],
                    h: free[1],
                    phase: 0,
                    grow_g: if wide { self.rng.range(0, 3) } else { self.rng.range(0, 8) },
                    grow_h: if wide { self.rng.range(12, 15) } else { self.rng.range(0, 6) },
                    prehistory: self.rng.chance(1, 3),
                    restart_before: self.faults_enabled && self.rng.chance(1, 4),
                    restart_after: self.faults_enabled && self.rng.chance(1, 4),
                    reads: self.rng.range(0, 6),
                    reject: self.rng.chance(1, 6),
                    pre_h: self.rng.chance(1, 3),
                };
                Some(Step::Empty { i: free[0] })
            }
            Kind::Script => {
                if self.rng.chance(1, 4) {
                    // two variables in one command, one name a prefix of the other
                    let p = self.pick_present(m)?;
                    let (l1, l2) = (self.label(), self.label());
                    l1.script_text()?;
                    l2.script_text()?;
                    let k = self.rng.below(m.cap.max(2));
                    let (a, b) = match self.rng.below(5) {
                        // names longer than a label, equal in their first eight characters
                        4 => (format!("vertex_1{}", self.rng.below(5)), format!("vertex_1{}", 5 + self.rng.below(5))),
                        0 => (format!("ν{k}"), format!("ν{k}{}", self.rng.below(10))),
                        1 => (format!("ν{k}{}", self.rng.below(10)), format!("ν{k}")),
                        2 => ("a".to_string(), "ab".to_string()),
                        _ => ("x".to_string(), "y".to_string()),
                    };
                    return Some(Step::Script2 { i, p: view.name(p), l1, l2, a, b, twice: self.rng.chance(1, 3) });
                }
                let lit = self.pick_present(m);
                let l = self.label();
                l.script_text()?;
                let mut cmds = vec![SCmd::Add(SId::X)];
                if let Some(p) = lit {
                    if self.rng.chance(2, 3) {
                        cmds.push(SCmd::Bind(SId::P(view.name(p)), SId::X, l));
                    }
                }
                if self.rng.chance(1, 2) {
                    let mut d = self.data_bytes();
                    if d.is_empty() {
                        d = vec![0xAB];
                    }
                    cmds.push(SCmd::Put(SId::X, d));
                }
                if self.rng.chance(1, 4) {
                    cmds.push(SCmd::Add(SId::X));
                }
                // the variable's name: plain, or of the form ν<K> with K the id of a present vertex
                // (the grammar's own example is `$ν1`); the name must not decide the id
                let name = match self.rng.below(4) {
                    0 => match self.pick_present(m) {
                        Some(k) => format!("ν{k}"),
                        None => String::new(),
                    },
                    1 => format!("ν{}", self.rng.below(m.cap)),
                    _ => String::new(),
                };
                Some(Step::Script { i, cmds, style: self.rng.below(256) as u8, var: view.fresh_var(), name })
            }
            Kind::BigGroup => {
                // a group that grows to 15 or 16 members (the limit) as a chain, holds one or two
                // data, and is then read to death
                if m.groups_alive() >= MAX_GROUPS {
                    return None;
                }
                if self.rng.chance(1, 4) && m.groups_alive() + 2 <= MAX_GROUPS {
                    // an edge that outlives its target: p (group A) points at r (group B), B dies, r is
                    // added again, gets a datum while ungrouped and is bound by the very same edge
                    // (joins A: its datum must count), then another put + read in A
                    let mut absent: Vec<usize> = (0..m.cap).filter(|v| !m.is_present(*v)).collect();
                    if absent.len() >= 4 {
                        self.rng.shuffle(&mut absent);
                        let (p, q, r, t) = (Id::L(absent[0]), Id::L(absent[1]), Id::L(absent[2]), Id::L(absent[3]));
                        let (l1, l2) = (self.label(), self.label());
                        for v in [q, r, t] {
                            self.queue.push_back(Step::Add { i, v });
                        }
                        self.queue.push_back(Step::Bind { i, a: q, b: p, l: l1.clone() });
                        self.queue.push_back(Step::Bind { i, a: r, b: t, l: l1 });
                        self.queue.push_back(Step::Bind { i, a: p, b: r, l: l2.clone() });
                        let d = self.data_bytes();
                        self.queue.push_back(Step::Put { i, v: t, d });
                        self.queue.push_back(Step::Data { i, v: t });
                        self.queue.push_back(Step::Add { i, v: r });
                        let d = self.data_bytes();
                        self.queue.push_back(Step::Put { i, v: r, d });
                        self.queue.push_back(Step::Bind { i, a: p, b: r, l: l2 });
                        let d = self.data_bytes();
                        self.queue.push_back(Step::Put { i, v: q, d });
                        self.queue.push_back(Step::Data { i, v: q });
                        return Some(Step::Add { i, v: p });
                    }
                }
                let size = if self.rng.chance(2, 3) { MAX_GROUP } else { MAX_GROUP - 1 };
                let mut absent: Vec<usize> = (0..m.cap).filter(|v| !m.is_present(*v)).collect();
                if absent.len() < size {
                    return None;
                }
                self.rng.shuffle(&mut absent);
                absent.truncate(size);
                for v in &absent[1..] {
                    self.queue.push_back(Step::Add { i, v: Id::L(*v) });
                }
                let l = self.label();
                let star = view.cfg.n >= size - 1 && self.rng.chance(1, 2);
                for k in 0..size - 1 {
                    if star {
                        let lab = PLabel::A(100 + k);
                        self.queue.push_back(Step::Bind { i, a: Id::L(absent[0]), b: Id::L(absent[k + 1]), l: lab });
                    } else if self.rng.chance(1, 2) {
                        self.queue.push_back(Step::Bind { i, a: Id::L(absent[k]), b: Id::L(absent[k + 1]), l: l.clone() });
                    } else {
                        self.queue.push_back(Step::Bind { i, a: Id::L(absent[k + 1]), b: Id::L(absent[k]), l: l.clone() });
                    }
                }
                // one run in three: every member holds an unread datum (the unread counter at its
                // maximum), and the graph is saved and reloaded in that state before the reads
                let all = self.rng.chance(1, 3);
                let mut carriers: Vec<usize> = if all { absent.clone() } else { vec![absent[size - 1], absent[self.rng.below(size)]] };
                for c in &carriers {
                    let d = self.data_bytes();
                    self.queue.push_back(Step::Put { i, v: Id::L(*c), d });
                }
                if all {
                    if let (Some(dst), true) = (view.free_slot(), view.followers(i).is_empty()) {
                        let path = self.rng.below(PATHS);
                        self.queue.push_back(Step::Save { i, path, fault: WFault::None });
                        self.queue.push_back(Step::Load { path, dst, fault: RFault::None, link: Some(i) });
                    }
                    self.rng.shuffle(&mut carriers);
                }
                if self.rng.chance(3, 4) {
                    for c in &carriers {
                        self.queue.push_back(Step::Data { i, v: Id::L(*c) });
                    }
                }
                Some(Step::Add { i, v: Id::L(absent[0]) })
            }
            Kind::RejectedMerge => {
                // a merge that sodg rejects in a defined way (the right graph has a vertex that is not
                // reachable from its root), on two throw-away graphs: whatever it leaves behind in the
                // process must not change what later calls on other graphs answer
                let free: Vec<usize> = (0..view.insts.len()).filter(|k| view.insts[*k].is_none()).collect();
                if free.len() < 2 {
                    return None;
                }
                let (x, y) = (free[0], free[1]);
                let extra = self.rng.range(1, 3.min(view.cfg.cap - 1));
                self.queue.push_back(Step::Add { i: x, v: Id::L(0) });
                self.queue.push_back(Step::Empty { i: y });
                self.queue.push_back(Step::Add { i: y, v: Id::L(0) });
                for k in 1..=extra {
                    self.queue.push_back(Step::Add { i: y, v: Id::L(k) });
                }
                self.queue.push_back(Step::Oob { i: x, call: Oob::MergeNonTree(y, Id::L(0), Id::L(0)) });
                self.queue.push_back(Step::Drop { i: x });
                self.queue.push_back(Step::Drop { i: y });
                Some(Step::Empty { i: x })
            }
            Kind::Storm => {
                // wrap-around counts: a multiple of 256 (or, rarely, of 65536), give or take a few
                let base = match self.rng.below(if self.thorough { 6 } else { 24 }) {
                    0 => 65_536,
                    1 | 2 => 512,
                    _ => 256,
                };
                // the count that makes a revision number wrap exactly depends on how many bumps the
                // code under test makes around it: try the multiple itself and its close neighbours
                let times = base + [0_usize, 1, 2, 2, 2, 3, 4][self.rng.below(7)] - 1;
                if self.rng.chance(1, 3) && !m.adoptive {
                    // the same cheap call many times: round and not so round counts
                    let v = self.pick_present(m)?;
                    let times = *self.rng.pick(&[100_usize, 127, 128, 129, 255, 256, 257, 1_000, 1_024]);
                    let kind = self.rng.below(6) as u8;
                    if kind == 5 {
                        // put + first read in a row: prefer a grouped vertex whose group cannot die by it
                        let good: Vec<usize> = m
                            .present
                            .iter()
                            .filter(|(x, mv)| mv.group.is_some_and(|g| m.groups[&g].iter().any(|y| y != *x && m.present[y].unread)))
                            .map(|(x, _)| *x)
                            .collect();
                        if !good.is_empty() {
                            let v = *self.rng.pick(&good);
                            return Some(Step::Repeat { i, kind, v: view.name(v), times });
                        }
                    }
                    return Some(Step::Repeat { i, kind, v: view.name(v), times });
                }
                if self.rng.chance(1, 4) && !m.adoptive {
                    // a lookup, the death and re-creation of the vertex, a storm elsewhere, the lookup again
                    let unread = m.unread_ids();
                    for _ in 0..6 {
                        if unread.is_empty() {
                            break;
                        }
                        let reader = *self.rng.pick(&unread);
                        let mut mm = m.clone();
                        let out = mm.data(reader);
                        let dying: Vec<usize> = out.removed.iter().copied().filter(|x| !m.present[x].edges.is_empty()).collect();
                        if dying.is_empty() {
                            continue;
                        }
                        let v = *self.rng.pick(&dying);
                        let a = m.present[&v].edges[self.rng.below(m.present[&v].edges.len())].0.clone();
                        let rest: Vec<usize> = mm.present.keys().copied().collect();
                        if rest.len() < 3 {
                            continue;
                        }
                        let (w, t1, t2) = (*self.rng.pick(&rest), *self.rng.pick(&rest), *self.rng.pick(&rest));
                        if w == t1 || w == t2 || t1 == t2 {
                            continue;
                        }
                        let b = self.label();
                        // the add and the first two binds are edge changes too: counts around the multiple
                        let times = base - 4 + self.rng.below(8);
                        return Some(Step::ReaddStorm { i, v: view.name(v), a, reader: view.name(reader), w: view.name(w), b, t1: view.name(t1), t2: view.name(t2), times });
                    }
                }
                if self.rng.chance(1, 3) {
                    let v = self.pick_present(m)?;
                    if !m.closure(v, &|_, _, _| true).is_some_and(|c| c.len() <= 14) {
                        return None;
                    }
                    // slices are cheap: the 16-bit wrap is tried often; a judged slice first, then (when
                    // something can die) a drain, then the storm, then a judged slice
                    let times = if self.rng.chance(1, 3) { 65_536 - self.rng.below(10) } else { times };
                    if !m.unread_ids().is_empty() && self.rng.chance(1, 2) {
                        let seeds = vec![self.rng.next_u64()];
                        // the storm and the judged slice afterwards start at vertices that survive the drain
                        let mut mm = m.clone();
                        for r in m.unread_ids() {
                            if mm.is_present(r) {
                                mm.data(r);
                            }
                        }
                        if let (Some(w), Some(w2)) = (self.pick_present(&mm), self.pick_present(&mm)) {
                            let ok = |x: usize| mm.closure(x, &|_, _, _| true).is_some_and(|c| c.len() <= 14);
                            if ok(w) && ok(w2) {
                                self.queue.push_back(Step::Drain { i, on_clone: false, order: self.rng.next_u64() });
                                self.queue.push_back(Step::SliceStorm { src: i, v: view.name(w), times });
                                self.queue.push_back(Step::Slice { src: i, v: view.name(w2), pred: Pred::All, seeds: vec![self.rng.next_u64()], keep: None });
                                return Some(Step::Slice { src: i, v: view.name(v), pred: Pred::All, seeds, keep: None });
                            }
                        }
                    }
                    // afterwards an ordinary, fully judged slice of some vertex
                    let w = self.pick_present(m)?;
                    if m.closure(w, &|_, _, _| true).is_some_and(|c| c.len() <= 14) {
                        let seeds = vec![self.rng.next_u64(), self.rng.next_u64()];
                        self.queue.push_back(Step::Slice { src: i, v: view.name(w), pred: Pred::All, seeds, keep: None });
                    }
                    return Some(Step::SliceStorm { src: i, v: view.name(v), times });
                }
                if m.adoptive {
                    return None;
                }
                for _ in 0..6 {
                    let (v, t1, t2) = (self.pick_present(m)?, self.pick_present(m)?, self.pick_present(m)?);
                    if v == t1 || v == t2 || t1 == t2 {
                        continue;
                    }
                    let a = if !m.present[&v].edges.is_empty() && self.rng.chance(1, 2) {
                        m.present[&v].edges[self.rng.below(m.present[&v].edges.len())].0.clone()
                    } else {
                        self.label()
                    };
                    let mut mm = m.clone();
                    if !mm.can_bind(v, t1, &a) {
                        continue;
                    }
                    mm.bind(v, t1, &a);
                    if !mm.can_bind(v, t2, &a) {
                        continue;
                    }
                    return Some(Step::Storm { i, v: view.name(v), a, t1: view.name(t1), t2: view.name(t2), times });
                }
                None
            }
            Kind::DeepMerge => {
                // two deep chains (more than 16 edges from the root, so each spans two groups that are
                // linked by a bind between two grouped vertices); h repeats g's labels and adds a leaf
                let free: Vec<usize> = (0..view.insts.len()).filter(|k| view.insts[*k].is_none()).collect();
                if free.len() < 2 {
                    return None;
                }
                let (g, h) = (free[0], free[1]);
                let cap = view.cfg.cap.max(26);
                let depth = self.rng.range(17, 21);
                let split = self.rng.range(6, 12);
                let l = self.label();
                let with_data = self.rng.chance(1, 2);
                let mut steps = Vec::new();
                for (inst, extra) in [(g, 0_usize), (h, 1)] {
                    steps.push(Step::EmptyCap { i: inst, cap });
                    let n = depth + extra;
                    for v in 0..n {
                        steps.push(Step::Add { i: inst, v: Id::L(v) });
                    }
                    // part A: 0 -> 1 -> … -> split ; part B: split+1 -> … ; then the link split -> split+1
                    for v in 0..split {
                        steps.push(Step::Bind { i: inst, a: Id::L(v), b: Id::L(v + 1), l: l.clone() });
                    }
                    for v in (split + 1)..(n - 1) {
                        steps.push(Step::Bind { i: inst, a: Id::L(v), b: Id::L(v + 1), l: l.clone() });
                    }
                    steps.push(Step::Bind { i: inst, a: Id::L(split), b: Id::L(split + 1), l: l.clone() });
                    if with_data {
                        let d = self.data_bytes();
                        steps.push(Step::Put { i: inst, v: Id::L(n - 1), d });
                    }
                }
                steps.push(Step::Merge { dst: g, src: h, left: Id::L(0), right: Id::L(0) });
                steps.push(Step::Drain { i: g, on_clone: false, order: self.rng.next_u64() });
                steps.push(Step::Drop { i: h });
                steps.push(Step::Drop { i: g });
                let first = steps.remove(0);
                self.queue.extend(steps);
                Some(first)
            }
            Kind::FullVertex if self.rng.chance(1, 3) => {
                // a neighbour (adjacent id) that carries the same label -> target pairs as `u`, bound in
                // the opposite order
                let cands: Vec<usize> = m.present.iter().filter(|(_, mv)| mv.edges.len() >= 2).map(|(k, _)| *k).collect();
                if cands.is_empty() {
                    return None;
                }
                let u = *self.rng.pick(&cands);
                let w = if u + 1 < m.cap && self.rng.chance(1, 2) { u + 1 } else if u > 0 { u - 1 } else { u + 1 };
                if w >= m.cap || w == u {
                    return None;
                }
                let mut mm = m.clone();
                let mut steps = Vec::new();
                if !mm.is_present(w) {
                    mm.add(w);
                    steps.push(Step::Add { i, v: Id::L(w) });
                }
                if !mm.present[&w].edges.is_empty() {
                    return None;
                }
                let mut pairs = m.present[&u].edges.clone();
                pairs.reverse();
                for (l, t) in pairs {
                    if t == w || !mm.is_present(t) || !mm.can_bind(w, t, &l) {
                        return None;
                    }
                    mm.bind(w, t, &l);
                    steps.push(Step::Bind { i, a: Id::L(w), b: view.name(t), l });
                }
                let first = steps.remove(0);
                self.queue.extend(steps);
                Some(first)
            }
            Kind::FullVertex => {
                // a vertex that carries exactly N labels (the limit), spread over few targets, then a
                // re-bind of one of them, of the first and of the last, to another target
                let n = view.cfg.n;
                let v = self.pick_present(m)?;
                let have = m.present[&v].edges.len();
                if have >= n {
                    return None;
                }
                let mut targets: Vec<usize> = m.present.keys().copied().filter(|t| *t != v).collect();
                if targets.is_empty() {
                    return None;
                }
                self.rng.shuffle(&mut targets);
                targets.truncate(3);
                // dry run on the model, so that group limits are respected
                let mut mm = m.clone();
                let mut steps = Vec::new();
                let base = 300 + self.rng.below(1_000);
                for k in have..n {
                    let t = targets[k % targets.len()];
                    let l = PLabel::A(base + k);
                    if !mm.can_bind(v, t, &l) {
                        return None;
                    }
                    mm.bind(v, t, &l);
                    steps.push(Step::Bind { i, a: view.name(v), b: view.name(t), l });
                }
                let labels: Vec<PLabel> = mm.present[&v].edges.iter().map(|(l, _)| l.clone()).collect();
                for idx in [0, labels.len() / 2, labels.len() - 1] {
                    let t = *self.rng.pick(&targets);
                    if mm.can_bind(v, t, &labels[idx]) {
                        mm.bind(v, t, &labels[idx]);
                        steps.push(Step::Bind { i, a: view.name(v), b: view.name(t), l: labels[idx].clone() });
                    }
                }
                if steps.is_empty() {
                    return None;
                }
                let first = steps.remove(0);
                self.queue.extend(steps);
                Some(first)
            }
            Kind::SaveReadSave => {
                // a generation in which nothing but reads happens: save, read, save to the same
                // path, reload in lockstep
                if inst.age == 0 || m.adoptive || !view.followers(i).is_empty() {
                    return None;
                }
                let dst = view.free_slot()?;
                let path = self.rng.below(PATHS);
                let mut unread = m.unread_ids();
                self.rng.shuffle(&mut unread);
                let reads = self.rng.range(1, 3).min(unread.len().max(1));
                for k in 0..reads {
                    let v = if k < unread.len() { unread[k] } else { self.pick_present(m)? };
                    self.queue.push_back(Step::Data { i, v: view.name(v) });
                }
                self.queue.push_back(Step::Save { i, path, fault: WFault::None });
                self.queue.push_back(Step::Load { path, dst, fault: RFault::None, link: Some(i) });
                Some(Step::Save { i, path, fault: WFault::None })
            }
            Kind::JoinMerge => {
                // out of contract on purpose (C07): a right graph in which one vertex is reached by
                // two paths that land on two different left vertices, so merge() joins them; then the
                // joined graph is written to, read until a group dies, copied and saved
                let free: Vec<usize> = (0..view.insts.len()).filter(|k| view.insts[*k].is_none()).collect();
                if free.len() < 2 || view.cfg.cap < 7 || view.cfg.n < 2 {
                    return None;
                }
                let (x, y) = (free[0], free[1]);
                let (a, b, c, d, e) = (PLabel::A(0), PLabel::A(1), PLabel::A(2), PLabel::A(3), PLabel::A(4));
                let heap = self.rng.chance(1, 2);
                let q = &mut self.queue;
                for v in [0, 1, 2] {
                    q.push_back(Step::Add { i: x, v: Id::L(v) });
                }
                q.push_back(Step::Bind { i: x, a: Id::L(0), b: Id::L(1), l: a.clone() });
                q.push_back(Step::Bind { i: x, a: Id::L(1), b: Id::L(2), l: b });
                q.push_back(Step::Put { i: x, v: Id::L(2), d: if heap { vec![7; 12] } else { vec![7; 3] } });
                q.push_back(Step::Empty { i: y });
                for v in [0, 4, 3, 5] {
                    q.push_back(Step::Add { i: y, v: Id::L(v) });
                }
                q.push_back(Step::Bind { i: y, a: Id::L(0), b: Id::L(4), l: c });
                q.push_back(Step::Bind { i: y, a: Id::L(0), b: Id::L(3), l: a });
                q.push_back(Step::Bind { i: y, a: Id::L(4), b: Id::L(3), l: d });
                q.push_back(Step::Bind { i: y, a: Id::L(3), b: Id::L(5), l: e });
                q.push_back(Step::Oob { i: x, call: Oob::MergeNonTree(y, Id::L(0), Id::L(0)) });
                q.push_back(Step::Put { i: x, v: Id::L(1), d: vec![9; 10] });
                q.push_back(Step::Data { i: x, v: Id::L(1) });
                q.push_back(Step::Data { i: x, v: Id::L(2) });
                q.push_back(Step::Drain { i: x, on_clone: false, order: 1 });
                q.push_back(Step::Save { i: x, path: 0, fault: WFault::None });
                q.push_back(Step::Drop { i: x });
                q.push_back(Step::Drop { i: y });
                Some(Step::Empty { i: x })
            }
            Kind::Cycle => self.cycle(view, i),
            Kind::Oob => self.oob(view, i, false),
            Kind::Sacrifice => {
                // a caller fault (an out-of-limit or out-of-contract call, caught by the caller) on a
                // throw-away copy, while every other graph of the process goes on being judged
                if m.adoptive || inst.poisoned || inst.age == 0 {
                    return None;
                }
                let dst = view.free_slot()?;
                let n = self.rng.range(1, 3);
                let mut calls = Vec::new();
                for _ in 0..n {
                    if let Some(Step::Oob { call, .. }) = self.oob(view, i, true) {
                        calls.push(call);
                    }
                }
                if calls.is_empty() {
                    return None;
                }
                for call in calls {
                    self.queue.push_back(Step::Oob { i: dst, call });
                }
                if self.rng.chance(3, 4) {
                    self.queue.push_back(Step::Drop { i: dst });
                }
                Some(Step::Clone { src: i, dst, link: false })
            }
            Kind::Damage => {
                let path = self.rng.below(PATHS);
                if matches!(view.paths[path].now, OnDisk::Missing) {
                    return None;
                }
                let sz = view.paths[path].size.max(1);
                let kind = match self.rng.below(8) {
                    6 | 7 => Damage::InlineSize(self.rng.below(64), *self.rng.pick(&[9, 16, 64, 200, 255])),
                    0 | 1 => Damage::BitFlip(self.rng.below(sz), self.rng.below(8) as u8),
                    2 => Damage::ZeroBlock(self.rng.below(sz), self.rng.range(1, 64)),
                    3 => Damage::Truncate(self.rng.below(sz)),
                    4 => Damage::StaleTail(self.rng.below(64)),
                    _ => Damage::SetByte(self.rng.below(sz), *self.rng.pick(&[0xFF, 0x7F, 0x80, 0x11, 0x00])),
                };
                if let Some(dst) = view.free_slot() {
                    self.queue.push_back(Step::Load { path, dst, fault: RFault::None, link: None });
                }
                Some(Step::Damage { path, kind })
            }
        }
    }

    /// One create–fill–put–(overwrite)–read cycle (C06), emitted as a queue.
    fn cycle(&mut self, view: &View, i: usize) -> Option<Step> {
        self.cycle_with(view, i, None)
    }

    fn cycle_with(&mut self, view: &View, i: usize, force_bg: Option<bool>) -> Option<Step> {
        let m = &view.insts[i].as_ref().unwrap().m;
        // keep some background groups alive first
        let want_bg = self.bg_groups.min(MAX_GROUPS - 1);
        let make_bg = force_bg.unwrap_or(m.groups_alive() < want_bg && self.rng.chance(1, 2));
        if m.groups_alive() >= MAX_GROUPS {
            // full: read something so a group can die
            let unread = m.unread_ids();
            if unread.is_empty() {
                return None;
            }
            return Some(Step::Data { i, v: view.name(*self.rng.pick(&unread)) });
        }
        let members = self.rng.range(2, 5.min(MAX_GROUP));
        let mut ids: Vec<usize> = Vec::new();
        let mut absent: Vec<usize> = (0..m.cap).filter(|v| !m.is_present(*v)).collect();
        if absent.len() < members {
            return None;
        }
        self.rng.shuffle(&mut absent);
        // rotate: prefer recycled ids
        absent.sort_by_key(|v| !m.collected_ever.contains(v));
        if self.rng.chance(1, 2) {
            self.rng.shuffle(&mut absent);
        }
        ids.extend(absent.iter().take(members));
        let mut steps = Vec::new();
        for v in &ids {
            steps.push(Step::Add { i, v: Id::L(*v) });
        }
        if self.rng.chance(1, 8) && force_bg != Some(true) {
            // every member is put and read while it is still ungrouped, only then they are bound:
            // the group holds data but no unread datum; then an add() of a member, a put, a read
            for v in &ids {
                steps.push(Step::Put { i, v: Id::L(*v), d: self.data_bytes() });
                steps.push(Step::Data { i, v: Id::L(*v) });
            }
            for k in 1..ids.len().min(view.cfg.n + 1) {
                let l = self.alphabet[(k - 1) % self.alphabet.len()].clone();
                steps.push(Step::Bind { i, a: Id::L(ids[0]), b: Id::L(ids[k]), l });
            }
            let again = ids[self.rng.below(ids.len())];
            steps.push(Step::Add { i, v: Id::L(again) });
            steps.push(Step::Data { i, v: Id::L(again) });
            if self.rng.chance(1, 2) {
                let w = ids[self.rng.below(ids.len())];
                steps.push(Step::Put { i, v: Id::L(w), d: self.data_bytes() });
                steps.push(Step::Data { i, v: Id::L(w) });
            }
            let first = steps.remove(0);
            self.queue.extend(steps);
            return Some(first);
        }
        let put_first = self.rng.chance(1, 3);
        let carrier = ids[self.rng.below(ids.len())];
        if put_first {
            steps.push(Step::Put { i, v: Id::L(carrier), d: self.data_bytes() });
        }
        let mut used = 0;
        for k in 1..ids.len() {
            if used >= view.cfg.n {
                break;
            }
            // star from ids[0] while labels last, else chain
            let l = self.alphabet[used % self.alphabet.len()].clone();
            steps.push(Step::Bind { i, a: Id::L(ids[0]), b: Id::L(ids[k]), l });
            used += 1;
        }
        if !put_first {
            steps.push(Step::Put { i, v: Id::L(carrier), d: self.data_bytes() });
        }
        if self.rng.chance(1, 3) {
            steps.push(Step::Put { i, v: Id::L(carrier), d: self.data_bytes() });
        }
        if self.rng.chance(1, 4) {
            let other = ids[self.rng.below(ids.len())];
            steps.push(Step::Put { i, v: Id::L(other), d: self.data_bytes() });
            steps.push(Step::Data { i, v: Id::L(other) });
        }
        if self.faults_enabled && self.rng.chance(1, 12) {
            let path = self.rng.below(PATHS);
            let fault = self.wfault(self.size_hint(view));
            steps.push(Step::Save { i, path, fault });
        }
        if !make_bg {
            steps.push(Step::Data { i, v: Id::L(carrier) });
            if self.rng.chance(1, 5) {
                steps.push(Step::Data { i, v: Id::L(carrier) });
            }
        }
        let first = steps.remove(0);
        self.queue.extend(steps);
        Some(first)
    }

    fn oob(&mut self, view: &View, i: usize, simple: bool) -> Option<Step> {
        let m = &view.insts[i].as_ref().unwrap().m;
        let k = self.rng.below(3) * self.rng.below(50);
        let p = |g: &mut Self| g.pick_present(m).map(|v| view.name(v));
        let sel = if simple { *self.rng.pick(&[0_usize, 1, 2, 3, 4, 5, 6, 7, 7, 9, 10, 11, 12, 13, 15]) } else { self.rng.below(17) };
        let call = match sel {
            0 => Oob::AddOver(k),
            1 => Oob::BindFromOver(k, p(self)?),
            2 => Oob::BindToOver(p(self)?, k),
            3 => Oob::PutOver(k),
            4 => Oob::DataOver(k),
            5 => Oob::KidOver(k),
            6 => Oob::KidsOver(k),
            7 => Oob::OverN(p(self)?, p(self)?),
            8 => {
                // build a full group of 16 as a chain (one label per vertex, fits every N), then one more
                let mut absent: Vec<usize> = (0..m.cap).filter(|v| !m.is_present(*v)).collect();
                if absent.len() < 17 || m.groups_alive() >= MAX_GROUPS {
                    return None;
                }
                self.rng.shuffle(&mut absent);
                absent.truncate(17);
                for v in &absent[1..] {
                    self.queue.push_back(Step::Add { i, v: Id::L(*v) });
                }
                let l = self.label();
                for k in 0..15 {
                    self.queue.push_back(Step::Bind { i, a: Id::L(absent[k]), b: Id::L(absent[k + 1]), l: l.clone() });
                }
                if self.rng.chance(1, 2) {
                    let d = self.data_bytes();
                    self.queue.push_back(Step::Put { i, v: Id::L(absent[3]), d });
                }
                self.queue.push_back(Step::Oob { i, call: Oob::Over16(Id::L(absent[15]), Id::L(absent[16])) });
                return Some(Step::Add { i, v: Id::L(absent[0]) });
            }
            9 => Oob::PutAbsent(self.pick_absent(m)?),
            10 => Oob::DataAbsent(self.pick_absent(m)?),
            11 => Oob::BindAbsent(self.pick_absent(m)?, p(self)?),
            12 => Oob::BindSelf(p(self)?),
            13 => Oob::NextIdExhausted,
            14 => {
                // fill the slot table to 14 live groups, then a burst of binds between ungrouped
                // vertices (high ids first), then copy and save the result
                let mut absent: Vec<usize> = (0..m.cap).filter(|v| !m.is_present(*v)).collect();
                absent.reverse();
                let missing = MAX_GROUPS.saturating_sub(m.groups_alive());
                let n = self.rng.range(17, 24);
                if absent.len() >= 2 * (missing + n) {
                    let l = self.label();
                    let mut it = absent.into_iter();
                    let mut low: Vec<usize> = Vec::new();
                    for _ in 0..(2 * n) {
                        low.push(it.next().unwrap());
                    }
                    for _ in 0..missing {
                        let (a, b) = (it.next().unwrap(), it.next().unwrap());
                        self.queue.push_back(Step::Add { i, v: Id::L(a) });
                        self.queue.push_back(Step::Add { i, v: Id::L(b) });
                        self.queue.push_back(Step::Bind { i, a: Id::L(a), b: Id::L(b), l: l.clone() });
                    }
                    for k in 0..n {
                        let (a, b) = (low[2 * k], low[2 * k + 1]);
                        self.queue.push_back(Step::Add { i, v: Id::L(a) });
                        self.queue.push_back(Step::Add { i, v: Id::L(b) });
                        let (x, y) = if self.rng.chance(1, 2) { (a, b) } else { (b, a) };
                        self.queue.push_back(Step::Oob { i, call: Oob::Group15(Id::L(x), Id::L(y)) });
                    }
                    if let Some(dst) = view.free_slot() {
                        self.queue.push_back(Step::Clone { src: i, dst, link: false });
                    }
                    self.queue.push_back(Step::Save { i, path: self.rng.below(PATHS), fault: WFault::None });
                    return self.queue.pop_front();
                }
                Oob::Group15(p(self)?, p(self)?)
            }
            15 => Oob::SliceAbsent(self.pick_absent(m)?),
            _ => {
                let others: Vec<usize> = view.live().into_iter().filter(|x| *x != i).collect();
                if others.is_empty() {
                    return None;
                }
                Oob::MergeNonTree(*self.rng.pick(&others), p(self)?, Id::L(self.rng.below(m.cap)))
            }
        };
        Some(Step::Oob { i, call })
    }

    /// Grow the tree in instance `i` by one vertex (or plant its root).
    fn grow(&mut self, view: &View, i: usize, with_data: bool, wide: bool) -> Option<Step> {
        let inst = view.insts[i].as_ref()?;
        let m = &inst.m;
        if m.present.is_empty() {
            let v = self.pick_absent(m)?;
            if with_data && self.rng.chance(1, 2) {
                let d = self.data_bytes();
                self.queue.push_back(Step::Put { i, v: Id::L(v), d });
            }
            return Some(Step::Add { i, v: Id::L(v) });
        }
        m.tree_root()?;
        for _ in 0..8 {
            let mut p = self.pick_present(m)?;
            let mut l = self.label();
            if wide {
                // every kid goes under the root, with labels of the root's own
                p = m.tree_root()?;
                if let Some(k) = (0..m.n).find(|k| m.kid(p, &PLabel::A(*k)).is_none()) {
                    l = PLabel::A(k);
                }
            }
            if m.kid(p, &l).is_some() || m.present[&p].edges.len() >= m.n {
                continue;
            }
            let child_var = self.rng.chance(1, 3);
            let first;
            let cid;
            if child_var {
                let var = view.fresh_var();
                first = Step::NextId { i, var };
                cid = Id::V(var);
                self.queue.push_back(Step::Add { i, v: cid });
            } else {
                let c = self.pick_absent(m)?;
                // a dry run of the bind on the model
                let mut mm = m.clone();
                mm.add(c);
                if !mm.can_bind(p, c, &l) {
                    continue;
                }
                cid = Id::L(c);
                first = Step::Add { i, v: cid };
            }
            self.queue.push_back(Step::Bind { i, a: view.name(p), b: cid, l });
            if with_data && self.rng.chance(1, 2) {
                let d = self.data_bytes();
                self.queue.push_back(Step::Put { i, v: cid, d });
                if self.rng.chance(1, 4) && m.unread_ids().len() >= 1 {
                    // a read that cannot kill: something else stays unread
                    self.queue.push_back(Step::Data { i, v: cid });
                }
            }
            return Some(first);
        }
        None
    }

    fn merge_ep_step(&mut self, view: &View) -> Option<Step> {
        let Mode::MergeEp { g, h, phase, grow_g, grow_h, prehistory, restart_before, restart_after, reads, reject, pre_h } =
            self.mode.clone()
        else {
            return None;
        };
        let set = |s: &mut Self, phase: u8, grow_g: usize, grow_h: usize, prehistory: bool, reads: usize| {
            s.mode = Mode::MergeEp { g, h, phase, grow_g, grow_h, prehistory, restart_before, restart_after, reads, reject, pre_h };
        };
        let abort = |s: &mut Self| {
            s.mode = Mode::Free;
            None
        };
        match phase {
            0 => {
                // grow g (with an optional earlier generation that is read to death first)
                if view.insts[g].is_none() {
                    return abort(self);
                }
                if grow_g == 0 {
                    if prehistory {
                        // kill this generation, then grow the real one
                        let m = &view.insts[g].as_ref().unwrap().m;
                        if m.unread_ids().is_empty() {
                            if let Some(v) = self.pick_present(m) {
                                let d = self.data_bytes();
                                return Some(Step::Put { i: g, v: view.name(v), d });
                            }
                        }
                        let n = self.rng.range(1, 7);
                        set(self, 0, n, grow_h, false, reads);
                        return Some(Step::Drain { i: g, on_clone: false, order: self.rng.next_u64() });
                    }
                    if view.insts[g].as_ref().unwrap().m.present.is_empty() {
                        set(self, 0, 1, grow_h, false, reads);
                        return None;
                    }
                    set(self, 1, 0, grow_h, false, reads);
                    if self.rng.chance(1, 3) {
                        // the right graph has a capacity of its own, larger than the left one's
                        let cap = view.cfg.cap + self.rng.range(1, 40);
                        return Some(Step::EmptyCap { i: h, cap: cap.min(300) });
                    }
                    return Some(Step::Empty { i: h });
                }
                set(self, 0, grow_g - 1, grow_h, prehistory, reads);
                self.grow(view, g, true, false)
            }
            1 => {
                if view.insts[h].is_none() || view.insts[g].is_none() {
                    return abort(self);
                }
                let hm = &view.insts[h].as_ref().unwrap().m;
                if grow_h == 0 && pre_h && hm.present.len() >= 2 && !reject {
                    // kill this generation of h (it needs a datum to die by), then grow the real one
                    if hm.unread_ids().is_empty() {
                        let v = self.pick_present(hm)?;
                        let mut d = self.data_bytes();
                        d.truncate(self.rng.range(1, 8));
                        if d.is_empty() {
                            d = vec![0x5A];
                        }
                        return Some(Step::Put { i: h, v: view.name(v), d });
                    }
                    let n = self.rng.range(1, 5);
                    self.mode = Mode::MergeEp { g, h, phase: 1, grow_g: 0, grow_h: n, prehistory: false, restart_before, restart_after, reads, reject, pre_h: false };
                    return Some(Step::Drain { i: h, on_clone: false, order: self.rng.next_u64() });
                }
                if grow_h == 0 && !hm.present.is_empty() {
                    set(self, if restart_before { 2 } else { 3 }, 0, 0, false, reads);
                    return None;
                }
                set(self, 1, 0, grow_h.saturating_sub(1), false, reads);
                self.grow(view, h, !reject, self.wide_h)
            }
            2 => {
                // merge right after a recovery: save g and h, die, reload both
                set(self, 3, 0, 0, false, reads);
                self.queue.push_back(Step::Save { i: h, path: 1, fault: WFault::None });
                self.queue.push_back(Step::Crash { loss: vec![], recover: vec![(0, g), (1, h)] });
                Some(Step::Save { i: g, path: 0, fault: WFault::None })
            }
            3 => {
                let (Some(gi), Some(hi)) = (view.insts[g].as_ref(), view.insts[h].as_ref()) else {
                    return abort(self);
                };
                let Some(right) = hi.m.tree_root() else { return abort(self) };
                if gi.m.tree_root().is_none() {
                    return abort(self);
                }
                if reject && hi.m.present.values().all(|v| v.data.is_none()) {
                    // one more present vertex that `right` does not reach
                    if let Some(extra) = self.pick_absent(&hi.m) {
                        let left = *self.rng.pick(&gi.m.present.keys().copied().collect::<Vec<_>>());
                        set(self, 5, 0, 0, false, reads);
                        self.queue.push_back(Step::Merge { dst: g, src: h, left: view.name(left), right: view.name(right) });
                        return Some(Step::Add { i: h, v: Id::L(extra) });
                    }
                }
                // choose `left` so that the result fits, if any choice does
                let mut lefts: Vec<usize> = gi.m.present.keys().copied().collect();
                self.rng.shuffle(&mut lefts);
                let left = lefts.into_iter().find(|l| merge_precheck(&gi.m, &hi.m, *l, right).is_some());
                let Some(left) = left else { return abort(self) };
                set(self, if restart_after { 4 } else { 5 }, 0, 0, false, reads);
                Some(Step::Merge { dst: g, src: h, left: view.name(left), right: view.name(right) })
            }
            4 => {
                set(self, 5, 0, 0, false, reads);
                let fault = self.wfault(self.size_hint(view));
                self.queue.push_back(Step::Crash { loss: vec![], recover: vec![(2, g)] });
                let _ = fault;
                Some(Step::Save { i: g, path: 2, fault: WFault::None })
            }
            5 => {
                // continuation: reads, then a drain, then free-for-all
                if view.insts[g].is_none() {
                    return abort(self);
                }
                if reads == 0 {
                    self.mode = Mode::Free;
                    if view.insts[h].is_some() && self.rng.chance(1, 2) {
                        self.queue.push_back(Step::Drop { i: h });
                    }
                    return Some(Step::Drain { i: g, on_clone: self.rng.chance(1, 2) && view.free_slot().is_some(), order: self.rng.next_u64() });
                }
                set(self, 5, 0, 0, false, reads - 1);
                let m = &view.insts[g].as_ref().unwrap().m;
                let v = self.pick_present(m)?;
                if self.rng.chance(1, 3) {
                    let d = self.data_bytes();
                    return Some(Step::Put { i: g, v: view.name(v), d });
                }
                Some(Step::Data { i: g, v: view.name(v) })
            }
            _ => abort(self),
        }
    }
}
