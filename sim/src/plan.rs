//! Plans: the explicit, replayable description of one simulated execution.
//! A plan holds every argument and every fault decision; executing it draws
//! no random number.

use serde::{Deserialize, Serialize};
use sodg::Label;

/// A label as written in a plan.
#[derive(Serialize, Deserialize, Clone, Debug, PartialEq, Eq, PartialOrd, Ord, Hash)]
pub enum PLabel {
    /// `Label::Alpha(n)`
    A(usize),
    /// `Label::Greek(c)`
    G(char),
    /// `Label::Str`, 2..=8 characters, padded with spaces by the conversion
    S(String),
}

impl PLabel {
    pub fn to_label(&self) -> Label {
        match self {
            Self::A(n) => Label::Alpha(*n),
            Self::G(c) => Label::Greek(*c),
            Self::S(s) => {
                let mut a = [' '; 8];
                for (i, c) in s.chars().take(8).enumerate() {
                    a[i] = c;
                }
                Label::Str(a)
            }
        }
    }

    pub fn from_label(l: &Label) -> Self {
        match l {
            Label::Alpha(n) => Self::A(*n),
            Label::Greek(c) => Self::G(*c),
            Label::Str(a) => Self::S(a.iter().collect::<String>().trim_end().to_string()),
        }
    }

    /// The text the script grammar of sodg accepts for this label.
    pub fn script_text(&self) -> Option<String> {
        match self {
            Self::A(n) => Some(format!("α{n}")),
            Self::G(c) if c.len_utf8() == 1 => Some(c.to_string()),
            Self::G(_) => None,
            Self::S(s) => Some(s.clone()),
        }
    }
}

/// A vertex id in a plan: literal, or the value a `next_id()`/`merge()` produced.
#[derive(Serialize, Deserialize, Clone, Copy, Debug, PartialEq, Eq, Hash)]
pub enum Id {
    L(usize),
    V(usize),
}

/// Fault decision attached to one `save()`.
#[derive(Serialize, Deserialize, Clone, Copy, Debug, PartialEq, Eq, Hash)]
pub enum WFault {
    None,
    /// open() fails; old content untouched
    OpenFail,
    /// open() truncates, the first write() fails
    FailAfterTrunc,
    /// `k` bytes are accepted, then write() fails
    Short(usize),
    /// `k` bytes are accepted, then the process dies inside save()
    CrashMid(usize),
    /// save() returns Ok and then the process dies
    CrashAfter,
}

/// Fault decision attached to one `load()`.
#[derive(Serialize, Deserialize, Clone, Copy, Debug, PartialEq, Eq, Hash)]
pub enum RFault {
    None,
    /// read() fails with EIO after `k` bytes
    Eio(usize),
    /// open() fails with ENOENT although the file exists
    Enoent,
}

/// What an un-synced file is reduced to by a power loss.
#[derive(Serialize, Deserialize, Clone, Copy, Debug, PartialEq, Eq, Hash)]
pub enum Loss {
    Keep,
    Old,
    Empty,
    Prefix(usize),
}

/// Damage done to an image at rest (C07 profile only).
#[derive(Serialize, Deserialize, Clone, Copy, Debug, PartialEq, Eq, Hash)]
pub enum Damage {
    BitFlip(usize, u8),
    ZeroBlock(usize, usize),
    Truncate(usize),
    /// a shorter image written over a longer one without truncation
    StaleTail(usize),
    SetByte(usize, u8),
    /// structure-aware bit rot: the length word of the k-th inline datum in the image becomes `n`
    InlineSize(usize, u8),
}

/// Predicate families for `slice_some`.
#[derive(Serialize, Deserialize, Clone, Copy, Debug, PartialEq, Eq, Hash)]
pub enum Pred {
    All,
    None,
    /// accept by a seeded hash of (from, to, label), `num` out of 8
    Hash(u64, u8),
    /// reject labels of one class: 0 = Alpha, 1 = Greek, 2 = Str
    NotClass(u8),
    /// accept only edges whose target parity equals the bit
    ToParity(bool),
    /// accept only edges leaving vertices of this parity
    FromParity(bool),
    /// accept everything, and panic at the k-th question (the caller catches it; slice_some takes
    /// `&self`, so nothing may have changed, and later slices must be right)
    PanicAt(u8),
    /// re-entrant use: before it answers, the predicate itself takes a slice (from the target of
    /// the edge it is asked about, on the same graph) and drops it; with the bit set it then
    /// rejects edges with (from + to) % 3 == 0, otherwise it accepts everything
    Nested(bool),
}

/// Out-of-contract calls (C07 profile only).
#[derive(Serialize, Deserialize, Clone, Debug, PartialEq, Eq, Hash)]
pub enum Oob {
    AddOver(usize),
    BindFromOver(usize, Id),
    BindToOver(Id, usize),
    PutOver(usize),
    DataOver(usize),
    KidOver(usize),
    KidsOver(usize),
    /// bind one more label than N on this vertex
    OverN(Id, Id),
    /// push a 17th member into the group of this vertex
    Over16(Id, Id),
    PutAbsent(usize),
    DataAbsent(usize),
    BindAbsent(usize, Id),
    BindSelf(Id),
    /// next_id() when no absent id is left at or above the position
    NextIdExhausted,
    /// bind two ungrouped vertices while 14 groups are alive
    Group15(Id, Id),
    SliceAbsent(usize),
    MergeNonTree(usize, Id, Id),
}

/// An id inside a script: a plan id, or the script's own `$x` variable.
#[derive(Serialize, Deserialize, Clone, Copy, Debug, PartialEq, Eq, Hash)]
pub enum SId {
    P(Id),
    X,
}

#[derive(Serialize, Deserialize, Clone, Debug, PartialEq, Eq, Hash)]
pub enum SCmd {
    Add(SId),
    Bind(SId, SId, PLabel),
    Put(SId, Vec<u8>),
}

#[derive(Serialize, Deserialize, Clone, Debug, PartialEq, Eq, Hash)]
pub enum Step {
    /// a fresh `Sodg::empty(cap)` in slot `i`
    Empty { i: usize },
    /// the same with a capacity of its own (graphs of different capacities meet in merge())
    EmptyCap { i: usize, cap: usize },
    /// put() of a datum in a non-canonical representation: 1 = `Hex::Vector` whatever the length,
    /// 2 = `Hex::Bytes` with non-zero padding behind the used prefix (length <= 8)
    PutRaw { i: usize, v: Id, d: Vec<u8>, enc: u8 },
    Add { i: usize, v: Id },
    Bind { i: usize, a: Id, b: Id, l: PLabel },
    Put { i: usize, v: Id, d: Vec<u8> },
    Data { i: usize, v: Id },
    NextId { i: usize, var: usize },
    Clone { src: usize, dst: usize, link: bool },
    Unlink { i: usize },
    /// a script with two variables: `ADD($a); ADD($b); BIND(p, $a, l1); BIND($a, $b, l2);`
    Script2 {
        i: usize,
        p: Id,
        l1: PLabel,
        l2: PLabel,
        a: String,
        b: String,
        /// the same `Script` object is deployed a second time (its variables are bound by then)
        #[serde(default)]
        twice: bool,
    },
    /// `times` binds of the same label of `v`, alternately to `t1` and `t2`, with nothing looked at
    /// in between (counters that wrap, caches that are validated by a revision number)
    Storm { i: usize, v: Id, a: PLabel, t1: Id, t2: Id, times: usize },
    /// the same cheap call `times` times in a row, nothing looked at in between: kind 0 = put() of
    /// fresh data on `v`, 1 = repeated data() of a datum that was read already, 2 = add() of the
    /// present `v`, 3 = clone() + drop, 4 = save() to path 0
    Repeat { i: usize, kind: u8, v: Id, times: usize },
    /// A lookup that succeeds, the death of the vertex's group, its re-creation, then `times` edge
    /// changes elsewhere with nothing looked at, then the same lookup (which must find nothing):
    /// `kid(v, a)`, `data(reader)` (collects v's group), `add(v)`, `times` re-binds of `w .b`
    /// alternately to t1/t2, `kid(v, a)`
    ReaddStorm { i: usize, v: Id, a: PLabel, reader: Id, w: Id, b: PLabel, t1: Id, t2: Id, times: usize },
    /// `times` calls of slice(v) whose results are dropped unseen
    SliceStorm { src: usize, v: Id, times: usize },
    /// `dst.clone_from(&src)` on a graph that already exists and was used
    CloneFrom { src: usize, dst: usize },
    Drop { i: usize },
    Slice {
        src: usize,
        v: Id,
        pred: Pred,
        seeds: Vec<u64>,
        /// keep the slice as a live instance in this slot (judged by C01, C03 and the replicas of C19)
        #[serde(default)]
        keep: Option<usize>,
    },
    Merge { dst: usize, src: usize, left: Id, right: Id },
    /// a script with at most one `$variable` (X), rendered with formatting `style`
    Script {
        i: usize,
        cmds: Vec<SCmd>,
        style: u8,
        var: usize,
        /// the name of the variable in the text (empty = `x`)
        #[serde(default)]
        name: String,
    },
    Save { i: usize, path: usize, fault: WFault },
    Load { path: usize, dst: usize, fault: RFault, link: Option<usize> },
    /// the process dies; every un-synced file is reduced as listed (by path);
    /// the next incarnation loads `recover` = (path, dst)
    Crash { loss: Vec<(usize, Loss)>, recover: Vec<(usize, usize)> },
    Reseed { seed: u64 },
    /// load every strict prefix of the image at `path` (all of them when
    /// `sample` is empty, else the listed cut points plus both ends)
    CutAll { path: usize, sample: Vec<usize> },
    Damage { path: usize, kind: Damage },
    Oob { i: usize, call: Oob },
    /// read every unread datum of `i` (on a clone of it when `on_clone`), in the listed order
    Drain { i: usize, on_clone: bool, order: u64 },
}

impl Step {
    pub fn kind(&self) -> &'static str {
        match self {
            Self::Empty { .. } | Self::EmptyCap { .. } => "empty",
            Self::Add { .. } => "add",
            Self::Bind { .. } => "bind",
            Self::Put { .. } | Self::PutRaw { .. } => "put",
            Self::Data { .. } => "data",
            Self::NextId { .. } => "next_id",
            Self::Clone { .. } | Self::CloneFrom { .. } => "clone",
            Self::Unlink { .. } => "unlink",
            Self::Storm { .. } => "storm",
            Self::Repeat { .. } => "repeat",
            Self::ReaddStorm { .. } => "readdstorm",
            Self::SliceStorm { .. } => "slicestorm",
            Self::Drop { .. } => "drop",
            Self::Slice { .. } => "slice",
            Self::Merge { .. } => "merge",
            Self::Script { .. } | Self::Script2 { .. } => "script",
            Self::Save { fault, .. } => match fault {
                WFault::None => "save",
                WFault::OpenFail => "save!open",
                WFault::FailAfterTrunc => "save!trunc",
                WFault::Short(_) => "save!short",
                WFault::CrashMid(_) => "save!crashmid",
                WFault::CrashAfter => "save!crashafter",
            },
            Self::Load { fault, .. } => match fault {
                RFault::None => "load",
                RFault::Eio(_) => "load!eio",
                RFault::Enoent => "load!enoent",
            },
            Self::Crash { .. } => "crash",
            Self::Reseed { .. } => "reseed",
            Self::CutAll { .. } => "cutall",
            Self::Damage { .. } => "damage",
            Self::Oob { .. } => "oob",
            Self::Drain { .. } => "drain",
        }
    }
}

/// Per-run configuration (dimension K) and buggify knobs.
#[derive(Serialize, Deserialize, Clone, Debug, PartialEq, Eq)]
pub struct Cfg {
    pub n: usize,
    pub cap: usize,
    pub hash_seed: u64,
    /// the simulated disk accepts at most this many bytes per write() call (0 = unlimited)
    pub write_chunk: usize,
    /// the simulated disk returns at most this many bytes per read() call (0 = unlimited)
    pub read_chunk: usize,
    /// every k-th write()/read() call is interrupted once with EINTR (0 = never)
    pub eintr_every: usize,
    /// every hash seed used in the run is xor-ed with this (H-replicas of C19)
    #[serde(default)]
    pub hash_xor: u64,
    /// (N, capacity) the contract is judged by, when the graph itself is built larger (K-replicas of C19)
    #[serde(default)]
    pub contract: Option<(usize, usize)>,
    /// C01 only: the model adopts the implementation's collections after the history-phrased safety
    /// clauses have been evaluated, so a run goes on past an exactness divergence (which is C02's)
    #[serde(default)]
    pub adopt_alive: bool,
    /// with `sweep_every` > 1: between the full sweeps nothing at all is asked (not even keys()),
    /// the model takes those steps alone
    #[serde(default)]
    pub blind: bool,
    /// the property this run is judged for: observational clauses other properties own are passed
    /// over instead of ending the run (none: every clause ends it)
    #[serde(default)]
    pub judge: Option<String>,
    /// the `log` crate's maximum level during the run (0 = off … 5 = trace); sodg's debug!/trace!
    /// arguments are evaluated only when the level admits them (L-replicas of C19)
    #[serde(default)]
    pub log_level: u8,
    /// the full read-only sweep (kids, kid for every probe label, v_print) runs after every k-th
    /// operation only (0 or 1 = after every one): an observer that looks after every step keeps
    /// lookup caches inside the code under test permanently warm
    #[serde(default)]
    pub sweep_every: usize,
}

impl Cfg {
    pub fn contract_n(&self) -> usize {
        self.contract.map_or(self.n, |c| c.0)
    }
    pub fn contract_cap(&self) -> usize {
        self.contract.map_or(self.cap, |c| c.1)
    }
}

#[derive(Serialize, Deserialize, Clone, Debug)]
pub struct Expect {
    pub clause: String,
    pub step: usize,
    pub message: String,
}

/// The replay file.
#[derive(Serialize, Deserialize, Clone, Debug)]
pub struct Replay {
    pub property: String,
    pub seed: u64,
    pub run: u64,
    pub tier: String,
    pub cfg: Cfg,
    /// further configurations the same plan is executed under (C19)
    pub replicas: Vec<Cfg>,
    pub plan: Vec<Step>,
    pub expect: Expect,
    pub original_plan_len: usize,
    pub sodg_rev: String,
    pub note: String,
    /// runs of the same batch to execute in the same process before the plan (only when the
    /// failure depends on state the code under test leaks from one graph to the next)
    #[serde(default)]
    pub prelude: Option<Prelude>,
}

#[derive(Serialize, Deserialize, Clone, Debug)]
pub struct Prelude {
    pub property: String,
    pub seed: u64,
    pub thorough: bool,
    pub from: u64,
    pub to: u64,
}

pub const N_SET: [usize; 6] = [1, 2, 3, 4, 7, 16];
