//! Determinism proof: every profile, many seeds, executed twice in this process, in two
//! other processes, and split over different worker counts; event-log hashes must agree.

use crate::batch::CLAIMED;
use crate::judge::generate_and_run;
use std::collections::BTreeMap;
use std::process::Command;

fn child_traces(prop: &str, seed: u64, from: u64, to: u64) -> BTreeMap<u64, String> {
    let exe = std::env::current_exe().unwrap();
    let o = Command::new(exe)
        .args(["selftest", "trace", prop, &seed.to_string(), &from.to_string(), &to.to_string()])
        .output()
        .expect("child");
    let mut m = BTreeMap::new();
    for l in String::from_utf8_lossy(&o.stdout).lines() {
        let p: Vec<&str> = l.split(' ').collect();
        if p.len() == 5 {
            m.insert(p[2].parse().unwrap(), format!("{} {}", p[3], p[4]));
        }
    }
    m
}

/// One slice of the proof, executed on the main thread of its own process (the mirror
/// directory and the working directory are per process, see mirror.rs): prints `n bad`.
pub fn chunk(prop: &str, from: u64, to: u64) -> i32 {
    let per_seed = 2_u64;
    let mut bad = 0_u64;
    let mut n = 0_u64;
    for s in from..to {
        let seed = 1_000 + s * 7_919;
        // (a) twice in this process
        let mut here = BTreeMap::new();
        for r in 0..per_seed {
            let a = generate_and_run(prop, seed, r, false);
            let b = generate_and_run(prop, seed, r, false);
            n += 1;
            if a.out.trace != b.out.trace || a.out.steps_done != b.out.steps_done {
                bad += 1;
                eprintln!("MISMATCH in-process {prop} seed={seed} run={r}");
            }
            here.insert(r, format!("{:016x} {}", a.out.trace, a.out.steps_done));
        }
        // (b) in another process, whole range; (c) in yet another, split differently
        if s % 8 == 0 {
            let whole = child_traces(prop, seed, 0, per_seed);
            let mut split = child_traces(prop, seed, 1, per_seed);
            split.extend(child_traces(prop, seed, 0, 1));
            for (r, t) in &here {
                n += 2;
                if whole.get(r) != Some(t) {
                    bad += 1;
                    eprintln!("MISMATCH cross-process {prop} seed={seed} run={r}: {t} vs {:?}", whole.get(r));
                }
                if split.get(r) != Some(t) {
                    bad += 1;
                    eprintln!("MISMATCH split-process {prop} seed={seed} run={r}: {t} vs {:?}", split.get(r));
                }
            }
        }
    }
    println!("CHUNK {n} {bad}");
    0
}

pub fn determinism(seeds: u64) -> i32 {
    let mut mismatches = 0_u64;
    let mut compared = 0_u64;
    // `seeds` VERIF_SEED values per profile, two runs each
    let exe = std::env::current_exe().unwrap();
    for prop in CLAIMED {
        let mut children = Vec::new();
        let chunk = seeds.div_ceil(16);
        for w in 0..16_u64 {
            let (from, to) = (w * chunk, ((w + 1) * chunk).min(seeds));
            if from >= to {
                continue;
            }
            children.push(
                Command::new(&exe)
                    .args(["selftest", "chunk", prop, &from.to_string(), &to.to_string()])
                    .stdout(std::process::Stdio::piped())
                    .spawn()
                    .expect("child"),
            );
        }
        for c in children {
            let o = c.wait_with_output().expect("child");
            let mut seen = false;
            for l in String::from_utf8_lossy(&o.stdout).lines() {
                let p: Vec<&str> = l.split(' ').collect();
                if p.len() == 3 && p[0] == "CHUNK" {
                    compared += p[1].parse::<u64>().unwrap_or(0);
                    mismatches += p[2].parse::<u64>().unwrap_or(0);
                    seen = true;
                }
            }
            if !seen {
                eprintln!("MISMATCH a slice of {prop} did not finish");
                mismatches += 1;
            }
        }
        println!("determinism {prop}: compared so far {compared}, mismatches {mismatches}");
    }
    println!("determinism: {compared} comparisons, {mismatches} mismatches");
    if mismatches == 0 {
        0
    } else {
        2
    }
}
