//! slice(), merge(), scripts, damage and out-of-contract calls.

use crate::exec::{check_edges, clauses, fail, Applied, Exec, Failure, Op};
use crate::view::LogOp;
use crate::model::RefGraph;
use crate::obs::{guarded, observe, Caught};
use crate::plan::{Damage, Id, Oob, PLabel, Pred, SCmd, SId, Step};
use crate::rng::H64;
use sodg::{Hex, Label, Script, Sodg};
use std::collections::{BTreeMap, BTreeSet};
use std::str::FromStr;

pub fn pred_accepts(p: Pred, from: usize, to: usize, l: &PLabel) -> bool {
    match p {
        Pred::All => true,
        Pred::None => false,
        Pred::Hash(seed, num) => {
            let mut h = H64(seed);
            h.usize(from);
            h.usize(to);
            h.str(&format!("{l:?}"));
            (h.finish() % 8) < u64::from(num)
        }
        Pred::NotClass(c) => {
            let k = match l {
                PLabel::A(_) => 0,
                PLabel::G(_) => 1,
                PLabel::S(_) => 2,
            };
            k != c
        }
        Pred::ToParity(b) => (to % 2 == 1) == b,
        Pred::FromParity(b) => (from % 2 == 1) == b,
        Pred::PanicAt(_) => true,
        Pred::Nested(b) => !b || (from + to) % 3 != 0,
    }
}

/// Dry run of merge on a copy of the model: how many vertices would be created, or
/// `None` when the result would leave the limits.
pub fn merge_precheck(g: &RefGraph, h: &RefGraph, left: usize, right: usize) -> Option<usize> {
    let mut g = g.clone();
    let mut free: Vec<usize> = (0..g.cap).rev().filter(|v| !g.is_present(*v)).collect();
    let mut new = 0;
    let mut todo = vec![(left, right)];
    while let Some((l, r)) = todo.pop() {
        for (a, to) in &h.present[&r].edges {
            let t = if let Some(t) = g.kid(l, a) {
                if !g.is_present(t) {
                    return None;
                }
                t
            } else {
                let t = free.pop()?;
                g.add(t);
                if !g.can_bind(l, t, a) {
                    return None;
                }
                g.bind(l, t, a);
                new += 1;
                t
            };
            todo.push((t, *to));
        }
    }
    Some(new)
}

impl<const N: usize> Exec<N> {
    pub(crate) fn do_slice(
        &mut self,
        src: usize,
        v: Id,
        pred: Pred,
        seeds: &[u64],
        keep: Option<usize>,
        s: &Step,
    ) -> Result<Applied, Failure> {
        let Some(v) = self.id(v) else { return Ok(Applied::Skipped) };
        if !self.usable(src) || self.view.insts[src].as_ref().unwrap().poisoned {
            return Ok(Applied::Skipped);
        }
        let m = self.view.insts[src].as_ref().unwrap().m.clone();
        if let Pred::PanicAt(k) = pred {
            // the predicate panics at its k-th call; the panic reaches the caller, who goes on
            if !m.is_present(v) {
                return Ok(Applied::Skipped);
            }
            let g = self.gs[src].as_ref().unwrap();
            let asked = std::cell::Cell::new(0_u32);
            let r = guarded(|| {
                g.slice_some(v, |_, _, _| {
                    asked.set(asked.get() + 1);
                    assert!(asked.get() < u32::from(k).max(1), "the predicate gives up");
                    true
                })
            });
            self.stats.bump(if r.is_err() { "probe.slice_predicate_panicked" } else { "probe.slice_predicate_panic_not_reached" });
            drop(r);
            // the source is unchanged
            let probes = self.view.probe_labels();
            let now = match observe(self.gs[src].as_ref().unwrap(), &probes, false) {
                Ok(o) => o,
                Err(c) => return fail("query.panic", clauses::PANIC_SLICE, format!("{c:?}")),
            };
            if let Some(d) = self.view.insts[src].as_ref().unwrap().last_obs.diff(&now) {
                return fail("slice.source-changed", clauses::C13, format!("a slice whose predicate panicked changed its source: {d}"));
            }
            self.check_untouched(&[])?;
            self.hash_step(s, "pred-panic");
            return Ok(Applied::Done);
        }
        // C10: whatever slice() answers — also outside C13's domain (edges into collected vertices,
        // more than 14 vertices) — it answers the same on a clone twin
        if let Some((f, _)) = self.view.followers(src).into_iter().find(|(_, k)| *k == crate::view::LinkKind::Clone) {
            let seed = seeds.first().copied().unwrap_or(self.view.cfg.hash_seed) ^ self.view.cfg.hash_xor;
            let probes = self.view.probe_labels();
            let mut outs = Vec::new();
            for inst in [src, f] {
                sodg::verif::collections::set_hash_seed(seed);
                let g = self.gs[inst].as_ref().unwrap();
                let r = guarded(|| g.slice_some(v, |a, b, l| pred_accepts(pred, a, b, &PLabel::from_label(&l))));
                outs.push(match r {
                    Ok(Ok(sl)) => match observe(&sl, &probes, true) {
                        Ok(o) => format!("ok {:016x} keys {:?}", o.hash(), o.keys),
                        Err(_) => "ok, sweep panics".to_string(),
                    },
                    Ok(Err(_)) => "err".to_string(),
                    Err(_) => "panic".to_string(),
                });
            }
            self.stats.bump("probe.slice_compared_on_clone_twin");
            if outs[0] != outs[1] {
                return fail(
                    "clone.answer-differs",
                    clauses::C10,
                    format!("slice(ν{v}, {pred:?}) on instance {src}: {}; on its clone twin {f}: {}", outs[0], outs[1]),
                );
            }
        }
        let Some(closure) = m.closure(v, &|f, t, l| pred_accepts(pred, f, t, l)) else {
            return Ok(Applied::Skipped);
        };
        if closure.len() > 14 {
            return Ok(Applied::Skipped);
        }
        if matches!(pred, Pred::Nested(_)) {
            // the inner slices must be inside C13's domain too
            match m.closure(v, &|_, _, _| true) {
                Some(c) if c.len() <= 14 => self.stats.bump("probe.slice_nested_in_predicate"),
                _ => return Ok(Applied::Skipped),
            }
        }
        let probes = self.view.probe_labels();
        let mut first: Option<crate::obs::Obs> = None;
        let mut kept: Option<Sodg<N>> = None;
        let mut seeds: Vec<u64> = seeds.to_vec();
        if seeds.is_empty() {
            seeds.push(self.view.cfg.hash_seed);
        }
        self.stats.bump("slice.calls");
        if closure.len() < m.present.len() {
            self.stats.bump("probe.slice_is_proper_subgraph");
        }
        let has_cycle = closure.iter().any(|x| {
            m.present[x].edges.iter().any(|(l, t)| {
                closure.contains(t) && pred_accepts(pred, *x, *t, l) && t <= x
            })
        });
        if has_cycle {
            self.stats.bump("probe.slice_with_back_edge");
        }
        for seed in &seeds {
            sodg::verif::collections::set_hash_seed(*seed ^ self.view.cfg.hash_xor);
            self.stats.bump("slice.hash_seeds_tried");
            let g = self.gs[src].as_ref().unwrap();
            let r = guarded(|| {
                if pred == Pred::All && seed % 2 == 0 {
                    g.slice(v)
                } else {
                    g.slice_some(v, |f, t, l| {
                        if matches!(pred, Pred::Nested(_)) {
                            drop(g.slice(t));
                        }
                        pred_accepts(pred, f, t, &PLabel::from_label(&l))
                    })
                }
            });
            let sl = match r {
                Ok(Ok(sl)) => sl,
                Ok(Err(e)) => {
                    return fail(
                        "slice.fails-in-domain",
                        clauses::C13,
                        format!("slice(ν{v}, {pred:?}) returned Err: {e:#}"),
                    )
                }
                Err(c) => {
                    return fail(
                        "panic.in-contract-call",
                        clauses::PANIC_SLICE,
                        format!("slice(ν{v}, {pred:?}) with closure {closure:?} panicked: {c:?}"),
                    )
                }
            };
            let obs = match observe(&sl, &probes, true) {
                Ok(o) => o,
                Err(c) => return fail("query.panic", clauses::PANIC_SLICE, format!("sweep of the slice: {c:?}")),
            };
            let want: Vec<usize> = closure.iter().copied().collect();
            if obs.keys != want {
                return fail(
                    "slice.vertex-set",
                    clauses::C13,
                    format!(
                        "slice(ν{v}, {pred:?}) has vertices {:?}, reachable set is {want:?} (hash seed {seed})",
                        obs.keys
                    ),
                );
            }
            for vo in &obs.verts {
                let src_edges = &m.present[&vo.v].edges;
                let got: BTreeSet<(PLabel, usize)> = vo.kids.iter().cloned().collect();
                if got.len() != vo.kids.len() {
                    return fail("slice.duplicate-edge", clauses::C13, format!("kids(ν{}) = {:?}", vo.v, vo.kids));
                }
                for e in &got {
                    if !src_edges.contains(e) {
                        return fail(
                            "slice.edge-not-in-source",
                            clauses::C13,
                            format!("slice has ν{} .{:?} → ν{}, the source has {:?}", vo.v, e.0, e.1, src_edges),
                        );
                    }
                }
                for (l, t) in src_edges {
                    if closure.contains(t) && pred_accepts(pred, vo.v, *t, l) && !got.contains(&(l.clone(), *t)) {
                        return fail(
                            "slice.accepted-edge-missing",
                            clauses::C13,
                            format!("slice lacks the accepted edge ν{} .{l:?} → ν{t} (hash seed {seed})", vo.v),
                        );
                    }
                }
            }
            match &first {
                None => first = Some(obs),
                Some(f) => {
                    if let Some(d) = f.diff(&obs) {
                        return fail(
                            "slice.depends-on-hash-order",
                            clauses::C13_19,
                            format!("slice(ν{v}, {pred:?}) under hash seeds {} and {seed}: {d}", seeds[0]),
                        );
                    }
                }
            }
            kept = Some(sl);
        }
        if let Some(f) = &first {
            self.rec(|| format!("slice(ν{v})={:016x}", f.hash()));
        }
        // the source is unchanged
        let g = self.gs[src].as_ref().unwrap();
        let now = match observe(g, &probes, false) {
            Ok(o) => o,
            Err(c) => return fail("query.panic", clauses::PANIC_SLICE, format!("{c:?}")),
        };
        if let Some(d) = self.view.insts[src].as_ref().unwrap().last_obs.diff(&now) {
            return fail("slice.source-changed", clauses::C13, format!("slice(ν{v}) changed its source: {d}"));
        }
        if let (Some(dst), Some(sl), Some(f)) = (keep, kept, &first) {
            if dst < self.gs.len() && self.gs[dst].is_none() {
                let verts: Vec<(usize, Vec<(PLabel, usize)>)> = f.verts.iter().map(|v| (v.v, v.kids.clone())).collect();
                let mut sm = RefGraph::slice_model(m.cap, m.n, &verts);
                if verts.iter().all(|(_, kids)| kids.is_empty()) {
                    // a slice without edges has no groups whatever the rebuild order: the model is
                    // exact, and the slice is a graph like any other (binds, new groups, exactness)
                    sm = RefGraph::new(m.cap, m.n);
                    for (x, _) in &verts {
                        sm.add(*x);
                    }
                    self.stats.bump("probe.edgeless_slice_kept_with_exact_model");
                }
                let fam = self.view.next_family;
                self.view.next_family += 1;
                self.new_inst(dst, sl, sm.clone(), crate::view::Origin::Fresh, fam)?;
                self.refresh_hints(dst);
                self.stats.bump("probe.slice_kept");
                // C10: a clone answers slice() as the original does — and keeps doing so. When the
                // source has a clone twin, the twin is sliced too, under a hash seed of its own (as two
                // calls in production would be), and the two slices go on in lockstep.
                let twin = self.view.followers(src).into_iter().find(|(_, k)| *k == crate::view::LinkKind::Clone);
                if let (Some((f, _)), Some(dst2)) = (twin, self.view.free_slot()) {
                    sodg::verif::collections::set_hash_seed(seeds[0] ^ 0x5851_F42D_4C95_7F2D ^ self.view.cfg.hash_xor);
                    let gf = self.gs[f].as_ref().unwrap();
                    let r2 = guarded(|| gf.slice_some(v, |a, b, l| pred_accepts(pred, a, b, &PLabel::from_label(&l))));
                    if let Ok(Ok(sl2)) = r2 {
                        self.new_inst(dst2, sl2, sm, crate::view::Origin::Fresh, fam)?;
                        let (a, b) = (self.deep(dst)?, self.deep(dst2)?);
                        if let Some(d) = a.diff(&b) {
                            return fail(
                                "clone.answer-differs",
                                clauses::C10,
                                format!("slice(ν{v}) of instance {src} vs slice(ν{v}) of its clone twin {f}: {d}"),
                            );
                        }
                        self.view.insts[dst2].as_mut().unwrap().leader = Some((dst, crate::view::LinkKind::Clone));
                        self.stats.bump("probe.slice_of_clone_twin_kept");
                    }
                }
                self.check_untouched(&[dst])?;
                self.hash_step(s, "kept");
                return Ok(Applied::Done);
            }
        }
        self.check_untouched(&[])?;
        self.hash_step(s, "");
        Ok(Applied::Done)
    }

    pub(crate) fn do_merge(
        &mut self,
        dst: usize,
        src: usize,
        left: Id,
        right: Id,
        s: &Step,
    ) -> Result<Applied, Failure> {
        let (Some(left), Some(right)) = (self.id(left), self.id(right)) else {
            return Ok(Applied::Skipped);
        };
        if dst == src || !self.targetable(dst) || !self.usable(src) {
            return Ok(Applied::Skipped);
        }
        self.refresh_hints(dst);
        let (gi, hi) = (
            self.view.insts[dst].as_ref().unwrap(),
            self.view.insts[src].as_ref().unwrap(),
        );
        if gi.poisoned || hi.poisoned || gi.m.adoptive || hi.m.adoptive {
            return Ok(Applied::Skipped);
        }
        let hm = hi.m.clone();
        if !gi.m.is_present(left) || gi.m.tree_root().is_none() {
            return Ok(Applied::Skipped);
        }
        if !hm.is_tree_rooted_at(right) {
            // a right graph that is a tree from `right` plus vertices that are not reachable from it
            // (and holds no data): sodg rejects it in a defined way. Whether and what it answers is
            // C12's (not claimed); the graph lives on and the allocator clauses of C05 still bind.
            let shape_ok = hm.tree_from(right).is_some_and(|r| r.len() < hm.present.len())
                && hm.present.values().all(|v| v.data.is_none());
            if shape_ok && self.view.followers(dst).is_empty() {
                if let Some(new) = merge_precheck(&gi.m, &hm, left, right) {
                    let model_pos = gi.m.returned.iter().next_back().map_or(0, |x| x + 1);
                    let pos = model_pos.max(gi.next_v);
                    let room = (pos..gi.m.cap).filter(|v| !gi.m.is_present(*v)).count();
                    if room >= new {
                        return self.do_rejected_merge(dst, src, left, right, s);
                    }
                }
            }
            return Ok(Applied::Skipped);
        }
        let Some(new) = merge_precheck(&gi.m, &hm, left, right) else {
            return Ok(Applied::Skipped);
        };
        // enough absent ids at or above the allocator position (model's and hook's); a graph that
        // came out of load() and was not touched since has every absent id to give ("the id
        // allocator restarts from the lowest absent id", C08), whatever the hook says
        let model_pos = gi.m.returned.iter().next_back().map_or(0, |x| x + 1);
        let fresh_from_load = gi.origin == crate::view::Origin::Loaded && gi.age == 0;
        let pos = if fresh_from_load { model_pos } else { model_pos.max(gi.next_v) };
        if fresh_from_load && gi.next_v > model_pos {
            self.stats.bump("probe.merge_after_load_hook_allocator_ahead");
        }
        let room = (pos..gi.m.cap).filter(|v| !gi.m.is_present(*v)).count();
        if room < new {
            return Ok(Applied::Skipped);
        }
        let mut touched = vec![dst];
        let followers = self.view.followers(dst);
        for (f, kind) in &followers {
            match kind {
                crate::view::LinkKind::Clone => touched.push(*f),
                crate::view::LinkKind::Reload => {
                    // ids chosen by the allocator may differ after a reload: lockstep ends here
                    self.view.insts[*f].as_mut().unwrap().leader = None;
                    self.stats.bump("probe.lockstep_ended_by_allocator");
                }
            }
        }
        let before_model = self.view.insts[dst].as_ref().unwrap().m.clone();
        let after_restart = self.view.insts[dst].as_ref().unwrap().origin == crate::view::Origin::Loaded
            && self.view.insts[dst].as_ref().unwrap().age == 0;
        let mut results = Vec::new();
        for t in touched.clone() {
            let mut g = self.gs[t].take().unwrap();
            let h = self.gs[src].as_ref().unwrap();
            let r = guarded(|| g.merge(h, left, right));
            self.gs[t] = Some(g);
            match r {
                Ok(Ok(())) => {}
                Ok(Err(e)) => {
                    return fail(
                        "merge.err-on-trees",
                        clauses::C11,
                        format!("merge(left=ν{left}, right=ν{right}) of two trees returned Err: {e:#}"),
                    )
                }
                Err(c) => {
                    return fail(
                        "panic.in-contract-call",
                        clauses::PANIC_MERGE,
                        format!("merge(left=ν{left}, right=ν{right}) panicked: {c:?}"),
                    )
                }
            }
            results.push(t);
        }
        self.stats.bump("merge.calls");
        self.stats.add("merge.new_vertices", new as u64);
        if after_restart {
            self.stats.bump("probe.merge_right_after_recovery");
        }
        if new == 0 {
            self.stats.bump("probe.merge_creates_nothing");
        }
        let probes = self.view.probe_labels();
        // h itself is unchanged
        {
            let h = self.gs[src].as_ref().unwrap();
            let now = match observe(h, &probes, false) {
                Ok(o) => o,
                Err(c) => return fail("query.panic", clauses::PANIC_MERGE, format!("{c:?}")),
            };
            if let Some(d) = self.view.insts[src].as_ref().unwrap().last_obs.diff(&now) {
                return fail("merge.right-graph-changed", clauses::C11, format!("merge changed its argument: {d}"));
            }
        }
        // walk every labelled path of h from `right` in g from `left`; the model adopts the ids
        let g = self.gs[dst].as_ref().unwrap();
        let mut m = before_model.clone();
        let mut mapping: BTreeMap<usize, usize> = BTreeMap::new();
        let mut new_ids = Vec::new();
        let mut todo = vec![(left, right)];
        mapping.insert(right, left);
        let mut flat: Vec<Op> = Vec::new();
        if let Some(d) = &hm.present[&right].data {
            if m.present[&left].unread {
                self.stats.bump("probe.merge_puts_onto_unread");
            }
            m.put(left, d);
            flat.push(Op::Put(left, d.clone()));
        }
        while let Some((l, r)) = todo.pop() {
            for (a, to) in &hm.present[&r].edges {
                let got = guarded(|| g.kid(l, a.to_label())).ok().flatten();
                let Some(t) = got else {
                    return fail(
                        "merge.path-missing",
                        clauses::C11,
                        format!("after merge the path … ν{l} .{a:?} (h: ν{r} → ν{to}) does not exist in g"),
                    );
                };
                if let Some(old) = before_model.kid(l, a) {
                    if old != t {
                        return fail(
                            "merge.existing-edge-redirected",
                            clauses::C11,
                            format!("g had ν{l} .{a:?} → ν{old}; after merge it points to ν{t}"),
                        );
                    }
                    self.stats.bump("probe.merge_descends_existing_edge");
                } else {
                    if before_model.is_present(t) || new_ids.contains(&t) {
                        return fail(
                            "merge.new-vertex-id-was-present",
                            &["C11", "C05"],
                            format!("merge created ν{l} .{a:?} → ν{t}, but ν{t} was already a vertex of g"),
                        );
                    }
                    if t >= m.cap {
                        return fail("merge.new-vertex-id-out-of-range", &["C11", "C05"], format!("ν{t}"));
                    }
                    m.add(t);
                    m.bind(l, t, a);
                    m.note_returned(t);
                    new_ids.push(t);
                    flat.push(Op::Add(t));
                    flat.push(Op::Bind(l, t, a.clone()));
                }
                if mapping.values().any(|x| *x == t) {
                    return fail(
                        "merge.not-injective",
                        clauses::C11,
                        format!("two vertices of h landed on ν{t}"),
                    );
                }
                mapping.insert(*to, t);
                if let Some(d) = &hm.present[to].data {
                    if m.present[&t].unread {
                        self.stats.bump("probe.merge_puts_onto_unread");
                    }
                    m.put(t, d);
                    flat.push(Op::Put(t, d.clone()));
                }
                todo.push((t, *to));
            }
        }
        let obs = match observe(g, &probes, false) {
            Ok(o) => o,
            Err(c) => return fail("query.panic", clauses::PANIC_MERGE, format!("{c:?}")),
        };
        if obs.keys != m.keys() {
            return fail(
                "merge.vertex-set",
                // an alive set that differs from the model right after the merge is the same event as
                // one that differs in the continuation: owned jointly with the exactness properties
                &["C11", "C02", "C06"],
                format!(
                    "after merge keys()={:?}; g before plus one vertex per missing path is {:?}",
                    obs.keys,
                    m.keys()
                ),
            );
        }
        if let Err(mut e) = check_edges(&obs, &m, &probes) {
            e.clause = "merge.edges";
            e.owners = clauses::C11.to_vec();
            return Err(e);
        }
        for vo in &obs.verts {
            let has = m.present[&vo.v].data.is_some();
            if vo.vprint.contains('Δ') != has {
                // a datum that appears from a re-added vertex of h is also add()'s blank-slate clause
                let from_readded = mapping.iter().any(|(hv, gv)| *gv == vo.v && hm.collected_ever.contains(hv));
                let f = fail::<()>(
                    "merge.data-presence",
                    if from_readded { &["C11", "C04"] } else { clauses::C11 },
                    format!("after merge v_print(ν{}) = {}, expected data: {has}", vo.v, vo.vprint),
                )
                .unwrap_err();
                if self.owned(&f) {
                    return Err(f);
                }
                // observational: a check that does not own it goes on; the model holds what the
                // merge should have put, so the continuation's data() answers and collections are
                // judged by the clauses of the running check
                self.stats.bump("foreign.passed_over.merge.data-presence");
                break;
            }
        }
        // data bytes, read on a throw-away clone so the graph itself is not disturbed
        {
            let expect: Vec<(usize, Vec<u8>)> = mapping
                .iter()
                .filter_map(|(hv, gv)| hm.present[hv].data.clone().map(|d| (*gv, d)))
                .collect();
            let r = guarded(|| {
                let mut c = g.clone();
                expect
                    .iter()
                    .map(|(gv, _)| c.data(*gv).map(|h| h.bytes().to_vec()))
                    .collect::<Vec<_>>()
            });
            match r {
                Ok(got) => {
                    for ((gv, d), x) in expect.iter().zip(got.iter()) {
                        if x.as_ref() != Some(d) {
                            let f = fail::<()>(
                                "merge.data-differs",
                                clauses::C11,
                                format!("ν{gv} should carry {d:?} after merge, data() gives {x:?}"),
                            )
                            .unwrap_err();
                            if self.owned(&f) {
                                return Err(f);
                            }
                            self.stats.bump("foreign.passed_over.merge.data-differs");
                            break;
                        }
                    }
                }
                Err(c) => {
                    return fail(
                        "merge.data-differs",
                        clauses::C11,
                        format!("reading merged data on a clone panicked: {c:?}"),
                    )
                }
            }
        }
        for t in &new_ids {
            let k = self.view.fresh_var();
            self.view.set_var(k, *t);
        }
        self.rec(|| format!("merge new ids={new_ids:?}"));
        // clone-followers must have done exactly the same
        for f in results.iter().skip(1) {
            let (a, b) = (self.deep(dst)?, self.deep(*f)?);
            if let Some(d) = a.diff(&b) {
                return fail(
                    "clone.sweep-differs",
                    clauses::C10,
                    format!("after the same merge: instance {dst} vs its clone twin {f}: {d}"),
                );
            }
        }
        for t in &results {
            let obs_t = match observe(self.gs[*t].as_ref().unwrap(), &probes, false) {
                Ok(o) => o,
                Err(c) => return fail("query.panic", clauses::PANIC_MERGE, format!("{c:?}")),
            };
            let inst = self.view.insts[*t].as_mut().unwrap();
            inst.m = m.clone();
            inst.last_obs = obs_t;
            inst.version += 1;
            inst.age += 1;
            inst.merged = true;
            inst.oplog.extend(flat.iter().map(|op| LogOp { op: op.clone(), add_present: false }));
            self.refresh_hints(*t);
        }
        let mut all = results.clone();
        all.push(src);
        self.check_untouched(&all)?;
        self.hash_step(s, &format!("{new_ids:?}"));
        Ok(Applied::Done)
    }

    /// merge() with a right graph sodg rejects (see do_merge). Nothing of C11 is judged. The model
    /// adopts whatever part of the tree the call grafted before it gave up; ids it created must have
    /// been absent (C05). If the outcome cannot be followed, the instance is poisoned without alarm.
    fn do_rejected_merge(&mut self, dst: usize, src: usize, left: usize, right: usize, s: &Step) -> Result<Applied, Failure> {
        self.refresh_hints(dst);
        let before = self.view.insts[dst].as_ref().unwrap().m.clone();
        let hm = self.view.insts[src].as_ref().unwrap().m.clone();
        let mut g = self.gs[dst].take().unwrap();
        let h = self.gs[src].as_ref().unwrap();
        let r = guarded(|| g.merge(h, left, right));
        self.gs[dst] = Some(g);
        self.stats.bump("merge.rejected_shape_calls");
        match &r {
            Ok(Ok(())) => self.stats.bump("merge.rejected_shape_returned_ok"),
            Ok(Err(_)) => self.stats.bump("merge.rejected_shape_returned_err"),
            Err(_) => {
                self.stats.bump("merge.rejected_shape_panicked");
                self.view.insts[dst].as_mut().unwrap().poisoned = true;
                return Ok(Applied::Done);
            }
        }
        let probes = self.view.probe_labels();
        let g = self.gs[dst].as_ref().unwrap();
        let mut m = before.clone();
        let mut flat: Vec<Op> = Vec::new();
        let mut new_ids = Vec::new();
        let mut todo = vec![(left, right)];
        while let Some((l, r)) = todo.pop() {
            for (a, to) in &hm.present[&r].edges {
                let Some(t) = guarded(|| g.kid(l, a.to_label())).ok().flatten() else { continue };
                if before.kid(l, a).is_none() {
                    if before.is_present(t) || new_ids.contains(&t) || t >= m.cap {
                        return fail(
                            "merge.new-vertex-id-was-present",
                            clauses::C05,
                            format!("a rejected merge created ν{l} .{a:?} → ν{t}, but ν{t} was already a vertex of g (or is out of range)"),
                        );
                    }
                    if before.returned.contains(&t) {
                        return fail(
                            "next_id.repeated",
                            clauses::C05,
                            format!("a rejected merge created ν{t}, an id next_id() had handed out before (lineage {:?})", before.returned),
                        );
                    }
                    m.add(t);
                    m.bind(l, t, a);
                    m.note_returned(t);
                    new_ids.push(t);
                    flat.push(Op::Add(t));
                    flat.push(Op::Bind(l, t, a.clone()));
                }
                todo.push((t, *to));
            }
        }
        let obs = match observe(g, &probes, false) {
            Ok(o) => o,
            Err(_) => {
                self.view.insts[dst].as_mut().unwrap().poisoned = true;
                return Ok(Applied::Done);
            }
        };
        let inst = self.view.insts[dst].as_mut().unwrap();
        if obs.keys != m.keys() || check_edges(&obs, &m, &probes).is_err() {
            // cannot be followed (e.g. the call rolled back half-way): only the memory observer goes on
            inst.poisoned = true;
            self.stats.bump("merge.rejected_shape_not_followed");
            return Ok(Applied::Done);
        }
        inst.m = m;
        inst.last_obs = obs;
        inst.version += 1;
        inst.age += 1;
        inst.merged = true;
        inst.oplog.extend(flat.into_iter().map(|op| LogOp { op, add_present: false }));
        for t in &new_ids {
            let k = self.view.fresh_var();
            self.view.set_var(k, *t);
        }
        self.stats.add("merge.rejected_shape_vertices_adopted", new_ids.len() as u64);
        self.refresh_hints(dst);
        self.check_untouched(&[dst])?;
        self.hash_step(s, &format!("rejected {new_ids:?}"));
        Ok(Applied::Done)
    }

    pub(crate) fn do_script(
        &mut self,
        i: usize,
        cmds: &[SCmd],
        style: u8,
        var: usize,
        name: &str,
        s: &Step,
    ) -> Result<Applied, Failure> {
        if !self.targetable(i) || self.view.insts[i].as_ref().unwrap().poisoned || self.view.insts[i].as_ref().unwrap().m.adoptive {
            return Ok(Applied::Skipped);
        }
        if !self.view.followers(i).is_empty() {
            return Ok(Applied::Skipped);
        }
        // validate against a copy of the model, with a placeholder for $x
        self.refresh_hints(i);
        let inst = self.view.insts[i].as_ref().unwrap();
        let mut m = inst.m.clone();
        let uses_x = cmds.iter().any(|c| match c {
            SCmd::Add(a) | SCmd::Put(a, _) => *a == SId::X,
            SCmd::Bind(a, b, _) => *a == SId::X || *b == SId::X,
        });
        let model_pos = m.returned.iter().next_back().map_or(0, |x| x + 1);
        let pos = model_pos.max(inst.next_v);
        let placeholder = (pos..m.cap).find(|v| !m.is_present(*v));
        if uses_x && placeholder.is_none() {
            return Ok(Applied::Skipped);
        }
        let res = |sid: &SId, view: &crate::view::View| -> Option<usize> {
            match sid {
                SId::P(id) => view.resolve(*id),
                SId::X => placeholder,
            }
        };
        let mut text = String::new();
        let mut parsed_labels = Vec::new();
        let mut x_added = false;
        for (k, c) in cmds.iter().enumerate() {
            let sep = match (style.wrapping_add(k as u8)) % 4 {
                0 => " ",
                1 => "\n",
                2 => " # note\n  ",
                _ => "",
            };
            let id_text = |sid: &SId, view: &crate::view::View| -> Option<String> {
                Some(match sid {
                    SId::X => format!("${}", if name.is_empty() { "x" } else { name }),
                    SId::P(id) => {
                        let v = view.resolve(*id)?;
                        if (style >> 2) % 2 == 0 {
                            format!("ν{v}")
                        } else {
                            format!("{v}")
                        }
                    }
                })
            };
            match c {
                SCmd::Add(a) => {
                    let Some(v) = res(a, &self.view) else { return Ok(Applied::Skipped) };
                    if !m.can_add(v) {
                        return Ok(Applied::Skipped);
                    }
                    if *a == SId::X {
                        // the first use of $x allocates; a later ADD($x) is an add on a present vertex
                        x_added = true;
                    }
                    m.add(v);
                    text.push_str(&format!("ADD({});{sep}", id_text(a, &self.view).unwrap()));
                }
                SCmd::Bind(a, b, l) => {
                    let (Some(va), Some(vb)) = (res(a, &self.view), res(b, &self.view)) else {
                        return Ok(Applied::Skipped);
                    };
                    if (*a == SId::X || *b == SId::X) && !x_added {
                        return Ok(Applied::Skipped);
                    }
                    let Some(lt) = l.script_text() else { return Ok(Applied::Skipped) };
                    // the script grammar trims its arguments: the label is what remains
                    let lt = lt.trim().to_string();
                    if lt.is_empty() {
                        return Ok(Applied::Skipped);
                    }
                    let Ok(parsed) = Label::from_str(&lt) else { return Ok(Applied::Skipped) };
                    let pl = PLabel::from_label(&parsed);
                    if !m.can_bind(va, vb, &pl) {
                        return Ok(Applied::Skipped);
                    }
                    m.bind(va, vb, &pl);
                    parsed_labels.push(pl);
                    text.push_str(&format!(
                        "BIND({}, {} ,{lt});{sep}",
                        id_text(a, &self.view).unwrap(),
                        id_text(b, &self.view).unwrap()
                    ));
                }
                SCmd::Put(a, d) => {
                    let Some(v) = res(a, &self.view) else { return Ok(Applied::Skipped) };
                    if (*a == SId::X && !x_added) || !m.can_put(v) || d.is_empty() {
                        return Ok(Applied::Skipped);
                    }
                    m.put(v, d);
                    let hex: Vec<String> = d
                        .iter()
                        .map(|b| if style % 2 == 0 { format!("{b:02X}") } else { format!("{b:02x}") })
                        .collect();
                    text.push_str(&format!("PUT({}, {});{sep}", id_text(a, &self.view).unwrap(), hex.join("-")));
                }
            }
        }
        for l in &parsed_labels {
            self.view.see_label(l);
        }
        let probes = self.view.probe_labels();
        let g = self.gs[i].as_mut().unwrap();
        let r = guarded(|| Script::from_str(&text).deploy_to(g));
        match r {
            Ok(Ok(n)) => {
                if n != cmds.len() {
                    self.stats.bump("probe.script_count_differs");
                }
            }
            Ok(Err(e)) => {
                // translation faithfulness is C14 (not claimed); only allocator clauses are judged here
                self.stats.bump("script.err");
                let _ = e;
                self.view.insts[i].as_mut().unwrap().poisoned = true;
                return Ok(Applied::Done);
            }
            Err(c) => {
                return fail(
                    "panic.in-contract-call",
                    clauses::PANIC_NEXT,
                    format!("script {text:?} panicked: {c:?}"),
                )
            }
        }
        self.stats.bump("script.deployed");
        let g = self.gs[i].as_ref().unwrap();
        let obs = match observe(g, &probes, false) {
            Ok(o) => o,
            Err(c) => return fail("query.panic", clauses::PANIC_Q, format!("{c:?}")),
        };
        let inst = self.view.insts[i].as_mut().unwrap();
        let before: BTreeSet<usize> = inst.m.present.keys().copied().collect();
        if uses_x && x_added {
            // which id did $x get? the one key that appeared beyond the literal adds
            let ph = placeholder.unwrap();
            let mut expected: BTreeSet<usize> = m.present.keys().copied().collect();
            expected.remove(&ph);
            let appeared: Vec<usize> = obs
                .keys
                .iter()
                .copied()
                .filter(|k| !expected.contains(k))
                .collect();
            if appeared.len() != 1 {
                return fail(
                    "script.variable-collides-with-present-vertex",
                    clauses::C05,
                    format!(
                        "script {text:?}: $x should have become one new vertex; keys before {before:?}, after {:?}",
                        obs.keys
                    ),
                );
            }
            let id = appeared[0];
            if before.contains(&id) || inst.m.returned.contains(&id) || id >= inst.m.cap {
                return fail(
                    "next_id.repeated",
                    clauses::C05,
                    format!("script variable got ν{id}, which was present or handed out before"),
                );
            }
            // replay the script on the real model with the adopted id
            let mut real = inst.m.clone();
            let mut pl = parsed_labels.iter();
            for c in cmds {
                let rs = |sid: &SId, view: &crate::view::View| match sid {
                    SId::P(p) => view.resolve(*p).unwrap(),
                    SId::X => id,
                };
                match c {
                    SCmd::Add(a) => {
                        real.add(rs(a, &self.view));
                    }
                    SCmd::Bind(a, b, _) => real.bind(rs(a, &self.view), rs(b, &self.view), pl.next().unwrap()),
                    SCmd::Put(a, d) => real.put(rs(a, &self.view), d),
                }
            }
            real.note_returned(id);
            m = real;
            self.view.set_var(var, id);
            self.stats.bump("script.variable_allocated");
            self.rec(|| format!("script $x={id}"));
        }
        {
            // the script, flattened into the calls it stands for
            let xid = self.view.vars.get(var).copied().flatten();
            let mut pl = parsed_labels.iter();
            let mut flat = Vec::new();
            for c in cmds {
                let rs = |sid: &SId| match sid {
                    SId::P(p) => self.view.resolve(*p),
                    SId::X => xid,
                };
                match c {
                    SCmd::Add(a) => {
                        if let Some(v) = rs(a) {
                            flat.push(Op::Add(v));
                        }
                    }
                    SCmd::Bind(a, b, _) => {
                        let l = pl.next().unwrap().clone();
                        if let (Some(a), Some(b)) = (rs(a), rs(b)) {
                            flat.push(Op::Bind(a, b, l));
                        }
                    }
                    SCmd::Put(a, d) => {
                        if let Some(v) = rs(a) {
                            flat.push(Op::Put(v, d.clone()));
                        }
                    }
                }
            }
            let inst = self.view.insts[i].as_mut().unwrap();
            inst.oplog.extend(flat.into_iter().map(|op| LogOp { op, add_present: false }));
        }
        let inst = self.view.insts[i].as_mut().unwrap();
        if obs.keys != m.keys() {
            // a removal would be C01's; anything else is translation (C14, not claimed)
            if before.iter().any(|k| !obs.keys.contains(k)) {
                return fail(
                    "removal.by-non-reading-call",
                    clauses::C01,
                    format!("script {text:?} removed vertices: {before:?} -> {:?}", obs.keys),
                );
            }
            self.stats.bump("script.translation_differs");
            inst.poisoned = true;
            return Ok(Applied::Done);
        }
        if check_edges(&obs, &m, &probes).is_err() {
            self.stats.bump("script.translation_differs");
            inst.poisoned = true;
            return Ok(Applied::Done);
        }
        inst.m = m;
        inst.last_obs = obs;
        inst.version += 1;
        inst.age += 1;
        self.refresh_hints(i);
        self.check_untouched(&[i])?;
        self.hash_step(s, "");
        Ok(Applied::Done)
    }

    /// A script with two variables (see Step::Script2). Only the allocator clauses of C05 are judged.
    #[allow(clippy::too_many_arguments)]
    pub(crate) fn do_script2(&mut self, i: usize, p: Id, l1: &PLabel, l2: &PLabel, na: &str, nb: &str, twice: bool, s: &Step) -> Result<Applied, Failure> {
        let Some(p) = self.id(p) else { return Ok(Applied::Skipped) };
        if !self.targetable(i) || !self.view.followers(i).is_empty() || na.is_empty() || nb.is_empty() || na == nb {
            return Ok(Applied::Skipped);
        }
        self.refresh_hints(i);
        let inst = self.view.insts[i].as_ref().unwrap();
        if inst.poisoned || inst.m.adoptive || !inst.m.is_present(p) {
            return Ok(Applied::Skipped);
        }
        let parse = |l: &PLabel| -> Option<(String, PLabel)> {
            let t = l.script_text()?.trim().to_string();
            if t.is_empty() {
                return None;
            }
            let parsed = Label::from_str(&t).ok()?;
            Some((t, PLabel::from_label(&parsed)))
        };
        let (Some((t1, q1)), Some((t2, q2))) = (parse(l1), parse(l2)) else { return Ok(Applied::Skipped) };
        let m0 = inst.m.clone();
        let pos = m0.returned.iter().next_back().map_or(0, |x| x + 1).max(inst.next_v);
        let mut free = (pos..m0.cap).filter(|v| !m0.is_present(*v));
        let (Some(pa), Some(pb)) = (free.next(), free.next()) else { return Ok(Applied::Skipped) };
        {
            let mut mm = m0.clone();
            mm.add(pa);
            mm.add(pb);
            if !mm.can_bind(p, pa, &q1) {
                return Ok(Applied::Skipped);
            }
            mm.bind(p, pa, &q1);
            if !mm.can_bind(pa, pb, &q2) {
                return Ok(Applied::Skipped);
            }
        }
        let text = format!("ADD(${na}); ADD(${nb});\nBIND(ν{p}, ${na}, {t1}); BIND(${na}, ${nb}, {t2});");
        self.view.see_label(&q1);
        self.view.see_label(&q2);
        let g = self.gs[i].as_mut().unwrap();
        let r = guarded(|| {
            let mut sc = Script::from_str(&text);
            let first = sc.deploy_to(g);
            if twice && first.is_ok() {
                // the variables are bound by now: the second deployment changes nothing
                let keys = g.keys();
                let second = sc.deploy_to(g);
                return (first, Some((second.is_ok(), keys, g.keys())));
            }
            (first, None)
        });
        let again = match r {
            Ok((Ok(_), again)) => again,
            Ok((Err(_), _)) => {
                self.stats.bump("script.err");
                self.view.insts[i].as_mut().unwrap().poisoned = true;
                return Ok(Applied::Done);
            }
            Err(c) => return fail("panic.in-contract-call", clauses::PANIC_NEXT, format!("script {text:?} panicked: {c:?}")),
        };
        if let Some((ok, before, after)) = again {
            self.stats.bump("script.deployed_twice");
            // whatever the second deployment did goes into the replica trace (C19); translation is C14's
            self.rec(|| format!("script deployed twice: ok={ok} keys {before:?} -> {after:?}"));
        }
        self.stats.bump("script.two_variables_deployed");
        let probes = self.view.probe_labels();
        let g = self.gs[i].as_ref().unwrap();
        let obs = match observe(g, &probes, false) {
            Ok(o) => o,
            Err(c) => return fail("query.panic", clauses::PANIC_Q, format!("{c:?}")),
        };
        let appeared: Vec<usize> = obs.keys.iter().copied().filter(|k| !m0.is_present(*k)).collect();
        let a = guarded(|| g.kid(p, q1.to_label())).ok().flatten();
        let b = a.and_then(|a| guarded(|| g.kid(a, q2.to_label())).ok().flatten());
        let fresh = |x: usize| !m0.is_present(x) && !m0.returned.contains(&x) && x < m0.cap;
        let (Some(a), Some(b)) = (a, b) else {
            return fail(
                "script.variable-collides-with-present-vertex",
                clauses::C05,
                format!("script {text:?}: the edges it was to make are not there; keys before {:?}, after {:?}", m0.keys(), obs.keys),
            );
        };
        if appeared.len() != 2 || a == b || !fresh(a) || !fresh(b) || !appeared.contains(&a) || !appeared.contains(&b) {
            return fail(
                "script.variable-collides-with-present-vertex",
                clauses::C05,
                format!(
                    "script {text:?}: ${na} became ν{a} and ${nb} became ν{b}; each should be one new vertex; keys before {:?}, after {:?}, handed out before {:?}",
                    m0.keys(), obs.keys, m0.returned
                ),
            );
        }
        let mut m = m0;
        m.add(a);
        m.add(b);
        m.bind(p, a, &q1);
        m.bind(a, b, &q2);
        m.note_returned(a);
        m.note_returned(b);
        let inst = self.view.insts[i].as_mut().unwrap();
        if obs.keys != m.keys() || check_edges(&obs, &m, &probes).is_err() {
            self.stats.bump("script.translation_differs");
            inst.poisoned = true;
            return Ok(Applied::Done);
        }
        inst.oplog.extend(
            [Op::Add(a), Op::Add(b), Op::Bind(p, a, q1.clone()), Op::Bind(a, b, q2.clone())]
                .into_iter()
                .map(|op| LogOp { op, add_present: false }),
        );
        inst.m = m;
        inst.last_obs = obs;
        inst.version += 1;
        inst.age += 1;
        for t in [a, b] {
            let k = self.view.fresh_var();
            self.view.set_var(k, t);
        }
        self.refresh_hints(i);
        self.check_untouched(&[i])?;
        self.hash_step(s, "");
        Ok(Applied::Done)
    }

    pub(crate) fn do_damage(&mut self, path: usize, kind: Damage) -> Result<Applied, Failure> {
        if path >= self.view.paths.len() {
            return Ok(Applied::Skipped);
        }
        let name = crate::view::path_name(path);
        let Some(mut bytes) = self.disk.borrow().content(&name).map(<[u8]>::to_vec) else {
            return Ok(Applied::Skipped);
        };
        if bytes.is_empty() {
            return Ok(Applied::Skipped);
        }
        match kind {
            Damage::BitFlip(i, b) => {
                let i = i % bytes.len();
                bytes[i] ^= 1 << (b % 8);
                self.stats.bump("fault.damage_bitflip");
            }
            Damage::SetByte(i, b) => {
                let i = i % bytes.len();
                bytes[i] = b;
                self.stats.bump("fault.damage_setbyte");
            }
            Damage::ZeroBlock(i, len) => {
                let i = i % bytes.len();
                let e = (i + len.max(1)).min(bytes.len());
                for x in &mut bytes[i..e] {
                    *x = 0;
                }
                self.stats.bump("fault.damage_zeroblock");
            }
            Damage::Truncate(k) => {
                let k = k % bytes.len();
                bytes.truncate(k);
                self.stats.bump("fault.damage_truncate");
            }
            Damage::InlineSize(k, n) => {
                // an inline datum is written as variant tag 1 (u32), 8 array bytes, length (u64 <= 8)
                let mut at = Vec::new();
                let mut i = 0;
                while i + 20 <= bytes.len() {
                    if bytes[i..i + 4] == [1, 0, 0, 0] && bytes[i + 12] <= 8 && bytes[i + 13..i + 20].iter().all(|b| *b == 0) {
                        at.push(i + 12);
                    }
                    i += 1;
                }
                if at.is_empty() {
                    return Ok(Applied::Skipped);
                }
                bytes[at[k % at.len()]] = n;
                self.stats.bump("fault.damage_inline_size");
            }
            Damage::StaleTail(k) => {
                let k = 1 + k % 64;
                let tail: Vec<u8> = bytes.iter().rev().take(k).rev().copied().collect();
                bytes.extend(tail);
                self.stats.bump("fault.damage_staletail");
            }
        }
        self.disk.borrow_mut().set_content(&name, bytes);
        self.view.paths[path].now = crate::view::OnDisk::Unknown;
        Ok(Applied::Done)
    }

    /// Out-of-contract calls ("caller faults"): caught, the run continues on the same,
    /// now poisoned, instance. The three limit overruns C07 names must panic.
    pub(crate) fn do_oob(&mut self, i: usize, call: &Oob) -> Result<Applied, Failure> {
        if !self.targetable(i) {
            return Ok(Applied::Skipped);
        }
        let m = self.view.insts[i].as_ref().unwrap().m.clone();
        // the capacity this instance was made with (instances may have capacities of their own)
        let cap = if self.view.cfg.contract.is_some() { self.view.cfg.cap } else { m.cap };
        let poisoned_before = self.view.insts[i].as_ref().unwrap().poisoned;
        let l0 = PLabel::A(7_000).to_label();
        // (must_panic, closure)
        let g = self.gs[i].as_mut().unwrap();
        let rid = |id: &Id, view: &crate::view::View| view.resolve(*id);
        let (must_panic, r): (bool, Result<(), Caught>) = match call {
            Oob::AddOver(k) => (true, guarded(|| g.add(cap + k))),
            Oob::PutOver(k) => (true, guarded(|| g.put(cap + k, &Hex::from(1_i64)))),
            Oob::DataOver(k) => (true, guarded(|| drop(g.data(cap + k)))),
            Oob::KidOver(k) => (true, guarded(|| drop(g.kid(cap + k, l0)))),
            Oob::KidsOver(k) => (true, guarded(|| drop(g.kids(cap + k).count()))),
            Oob::BindFromOver(k, b) => {
                let Some(b) = rid(b, &self.view) else { return Ok(Applied::Skipped) };
                if !m.is_present(b) && !poisoned_before {
                    return Ok(Applied::Skipped);
                }
                (true, guarded(|| g.bind(cap + k, b, l0)))
            }
            Oob::BindToOver(a, k) => {
                let Some(a) = rid(a, &self.view) else { return Ok(Applied::Skipped) };
                if !m.is_present(a) && !poisoned_before {
                    return Ok(Applied::Skipped);
                }
                (true, guarded(|| g.bind(a, cap + k, l0)))
            }
            Oob::OverN(a, b) => {
                let (Some(a), Some(b)) = (rid(a, &self.view), rid(b, &self.view)) else {
                    return Ok(Applied::Skipped);
                };
                if poisoned_before || a == b || !m.is_present(a) || !m.is_present(b) {
                    return Ok(Applied::Skipped);
                }
                // fill up to N with fresh labels, then one more
                let have = m.present[&a].edges.len();
                let r = guarded(|| {
                    for k in have..=N {
                        g.bind(a, b, PLabel::A(8_000 + k).to_label());
                    }
                });
                // whatever else is crossed on the way, the (N+1)th label must stop with a panic
                (true, r)
            }
            Oob::Over16(a, b) => {
                let (Some(a), Some(b)) = (rid(a, &self.view), rid(b, &self.view)) else {
                    return Ok(Applied::Skipped);
                };
                if poisoned_before || a == b || !m.is_present(a) || !m.is_present(b) {
                    return Ok(Applied::Skipped);
                }
                // a in a full group, b ungrouped, and a has room for the label
                let full = m.group_size(a) == crate::model::MAX_GROUP && m.present[&b].group.is_none();
                let has_room = m.present[&a].edges.len() < N;
                if !(full && has_room) {
                    return Ok(Applied::Skipped);
                }
                // either direction reaches a different push site in bind()
                if (a + b) % 2 == 0 {
                    (true, guarded(|| g.bind(a, b, l0)))
                } else {
                    (true, guarded(|| g.bind(b, a, l0)))
                }
            }
            Oob::PutAbsent(v) => (false, guarded(|| g.put(v % cap, &Hex::from(1_i64)))),
            Oob::DataAbsent(v) => (false, guarded(|| drop(g.data(v % cap)))),
            Oob::BindAbsent(v, b) => {
                let Some(b) = rid(b, &self.view) else { return Ok(Applied::Skipped) };
                (false, guarded(|| g.bind(v % cap, b % cap, l0)))
            }
            Oob::BindSelf(a) => {
                let Some(a) = rid(a, &self.view) else { return Ok(Applied::Skipped) };
                (false, guarded(|| g.bind(a % cap, a % cap, l0)))
            }
            Oob::NextIdExhausted => (false, guarded(|| drop(g.next_id()))),
            Oob::Group15(a, b) => {
                let (Some(a), Some(b)) = (rid(a, &self.view), rid(b, &self.view)) else {
                    return Ok(Applied::Skipped);
                };
                (false, guarded(|| g.bind(a % cap, b % cap, l0)))
            }
            Oob::SliceAbsent(v) => (false, guarded(|| drop(g.slice(v % cap)))),
            Oob::MergeNonTree(src, l, r) => {
                let (Some(l), Some(r)) = (rid(l, &self.view), rid(r, &self.view)) else {
                    return Ok(Applied::Skipped);
                };
                if *src == i || !self.usable(*src) {
                    return Ok(Applied::Skipped);
                }
                let mut gg = self.gs[i].take().unwrap();
                let h = self.gs[*src].as_ref().unwrap();
                let r = guarded(|| drop(gg.merge(h, l % cap, r % cap)));
                self.gs[i] = Some(gg);
                (false, r)
            }
        };
        self.stats.bump(&format!("fault.caller_{}", oob_name(call)));
        match &r {
            Ok(()) => self.stats.bump("caller_fault.returned"),
            Err(_) => self.stats.bump("caller_fault.panicked"),
        }
        let inst = self.view.insts[i].as_mut().unwrap();
        inst.poisoned = true;
        inst.leader = None;
        for x in self.view.insts.iter_mut().flatten() {
            if matches!(x.leader, Some((l, _)) if l == i) {
                x.leader = None;
            }
        }
        if must_panic && r.is_ok() && !poisoned_before {
            return fail(
                "overrun.does-not-panic",
                clauses::C07,
                format!("{call:?} exceeds a limit (capacity {cap}, N {N}) but returned normally"),
            );
        }
        Ok(Applied::Done)
    }
}

fn oob_name(c: &Oob) -> &'static str {
    match c {
        Oob::AddOver(_) => "add_over_cap",
        Oob::BindFromOver(..) => "bind_from_over_cap",
        Oob::BindToOver(..) => "bind_to_over_cap",
        Oob::PutOver(_) => "put_over_cap",
        Oob::DataOver(_) => "data_over_cap",
        Oob::KidOver(_) => "kid_over_cap",
        Oob::KidsOver(_) => "kids_over_cap",
        Oob::OverN(..) => "label_over_n",
        Oob::Over16(..) => "member_over_16",
        Oob::PutAbsent(_) => "put_absent",
        Oob::DataAbsent(_) => "data_absent",
        Oob::BindAbsent(..) => "bind_absent",
        Oob::BindSelf(_) => "bind_self",
        Oob::NextIdExhausted => "next_id_exhausted",
        Oob::Group15(..) => "group_15",
        Oob::SliceAbsent(_) => "slice_absent",
        Oob::MergeNonTree(..) => "merge_non_tree",
    }
}
