//! Pinned histories of the defects that were repaired in /repo (DESIGN §8). Every run of
//! the owning check re-executes them; a `fixed:` entry suppresses nothing.

use crate::batch::verif_dir;
use crate::plan::{Cfg, Expect, Id, PLabel, Replay, Step, WFault};

fn cfg() -> Cfg {
    Cfg {
        n: 4,
        cap: 16,
        hash_seed: 1,
        write_chunk: 0,
        read_chunk: 0,
        eintr_every: 0,
        hash_xor: 0,
        contract: None,
        adopt_alive: false,
        blind: false,
        judge: None,
        log_level: 0,
        sweep_every: 0,
    }
}

fn add(v: usize) -> Step {
    Step::Add { i: 0, v: Id::L(v) }
}
fn bind(a: usize, b: usize, l: usize) -> Step {
    Step::Bind { i: 0, a: Id::L(a), b: Id::L(b), l: PLabel::A(l) }
}
fn put(v: usize, d: &[u8]) -> Step {
    Step::Put { i: 0, v: Id::L(v), d: d.to_vec() }
}
fn data(v: usize) -> Step {
    Step::Data { i: 0, v: Id::L(v) }
}

pub fn all() -> Vec<(&'static str, Replay)> {
    let mk = |prop: &str, clause: &str, note: &str, mut plan: Vec<Step>| {
        plan.insert(0, Step::Empty { i: 0 });
        Replay {
            property: prop.to_string(),
            seed: 0,
            run: 0,
            tier: "quick".to_string(),
            cfg: cfg(),
            replicas: vec![],
            expect: Expect {
                clause: clause.to_string(),
                step: plan.len() - 1,
                message: String::new(),
            },
            original_plan_len: plan.len(),
            plan,
            sodg_rev: "before the fix: commits".to_string(),
            note: note.to_string(),
            prelude: None,
        }
    };
    vec![
        (
            "D1-C01-read-of-unbound-vertex-collects-vertex-0",
            mk(
                "C01",
                "removal.not-linked-by-binds",
                "D1: add(0) add(5) put(5,x) data(5) removed ν0",
                vec![add(0), add(5), put(5, b"x"), data(5)],
            ),
        ),
        (
            "D1-C02-read-of-unbound-vertex-collects-vertex-0",
            mk(
                "C02",
                "alive-set.differs-from-model",
                "D1 as seen by C02's oracle",
                vec![add(0), add(5), put(5, b"x"), data(5)],
            ),
        ),
        (
            "D2-C02-put-before-bind-overflows-counter",
            mk(
                "C02",
                "panic.in-contract-call",
                "D2: add(1) add(2) put(2,x) bind(1,2,α0) data(2) panicked with subtract overflow",
                vec![add(1), add(2), put(2, b"x"), bind(1, 2, 0), data(2)],
            ),
        ),
        (
            "D3-C02-overwrite-counted-twice",
            mk(
                "C02",
                "alive-set.differs-from-model",
                "D3: overwriting an unread datum kept the group alive for ever",
                vec![add(1), add(2), bind(1, 2, 0), put(2, b"x"), put(2, b"y"), data(2)],
            ),
        ),
        (
            "D4-C04-add-on-present-vertex-ungroups-it",
            mk(
                "C04",
                "alive-set.differs-from-model",
                "D4: add() on a grouped present vertex reset its tag; the next bind put it into a second group",
                vec![add(1), add(2), bind(1, 2, 0), put(2, b"x"), add(1), add(3), bind(1, 3, 1), data(2)],
            ),
        ),
        (
            "D5-C04-readd-of-collected-id-keeps-old-edges",
            mk(
                "C04",
                "add.not-blank.edges",
                "D5: a re-added collected id came back with the dead vertex's edges and data",
                vec![add(1), add(2), bind(1, 2, 0), put(2, b"x"), data(2), add(1)],
            ),
        ),
        (
            "D5-C03-readd-of-collected-id-returns-old-data",
            mk(
                "C03",
                "data.wrong-value",
                "D5 as seen by C03: data() of a re-added id returned the dead vertex's bytes",
                vec![add(1), add(2), bind(1, 2, 0), put(2, b"x"), data(2), add(2), data(2)],
            ),
        ),
        (
            "D2-C08-unread-datum-put-before-bind-survives-reload",
            mk(
                "C08",
                "reload.diverges-in-continuation",
                "D2 across a restart: the counter state written by put-before-bind must reload consistently",
                vec![
                    add(1),
                    add(2),
                    put(2, b"0123456789"),
                    bind(1, 2, 0),
                    Step::Save { i: 0, path: 0, fault: WFault::None },
                    Step::Load { path: 0, dst: 1, fault: crate::plan::RFault::None, link: Some(0) },
                    data(2),
                ],
            ),
        ),
    ]
}

pub fn write_all() {
    let dir = verif_dir().join("sim").join("regressions");
    std::fs::create_dir_all(&dir).unwrap();
    for (name, r) in all() {
        let p = dir.join(format!("{name}.json"));
        std::fs::write(&p, serde_json::to_string_pretty(&r).unwrap()).unwrap();
        println!("wrote {}", p.display());
    }
}
