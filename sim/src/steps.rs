//! Step dispatcher and the steps around persistence, copying and restarts.

use crate::exec::{clauses, fail, Applied, Exec, Failure, Op, OpRet};
use crate::model::RefGraph;
use crate::obs::{guarded, observe, Caught};
use crate::plan::{Loss, RFault, Step, WFault};
use crate::rng::Rng;
use crate::view::{path_name, path_os, LinkKind, OnDisk, Origin, SavedState};
use sodg::{Hex, Sodg};
use std::path::Path;
use std::rc::Rc;

impl<const N: usize> Exec<N> {
    /// Apply one step. Steps that are not in contract for the current state are skipped
    /// (this is what makes deleting steps during minimisation safe).
    pub fn step(&mut self, idx: usize, s: &Step) -> Result<Applied, Failure> {
        // a save that killed the process must be followed by the restart
        if self.view.must_crash && !matches!(s, Step::Crash { .. }) {
            self.do_crash(&[], &[]).map_err(|mut e| {
                e.step = idx;
                e
            })?;
        }
        if self.view.live().len() >= 2 {
            let target = match s {
                Step::Add { i, .. } | Step::Bind { i, .. } | Step::Put { i, .. } | Step::PutRaw { i, .. } | Step::Data { i, .. } | Step::NextId { i, .. }
                | Step::Drain { i, .. } | Step::Script { i, .. } | Step::Script2 { i, .. } | Step::Save { i, .. } | Step::Oob { i, .. } | Step::Storm { i, .. } | Step::Repeat { i, .. } | Step::ReaddStorm { i, .. } => *i + 1,
                Step::Clone { src, .. } | Step::Slice { src, .. } => *src + 1,
                Step::Merge { dst, .. } => *dst + 1,
                _ => 0,
            };
            if target > 0 {
                self.interleaving.usize(target);
            }
        }
        // progress for the worker's watchdog: a hang is a *step* that does not end
        crate::run::HEARTBEAT.fetch_add(1, std::sync::atomic::Ordering::Relaxed);
        let r = self.step_inner(s);
        self.view.steps_done += 1;
        match r {
            Ok(a) => {
                if a == Applied::Done && self.record.is_some() {
                    // the full observation of every live graph goes into the replica trace
                    let mut line = format!("#{idx} {}", s.kind());
                    for i in 0..self.gs.len() {
                        if self.usable(i) && !self.view.insts[i].as_ref().unwrap().poisoned {
                            match self.deep(i) {
                                Ok(o) => line.push_str(&format!(" g{i}={:016x}", o.hash())),
                                Err(mut e) => {
                                    e.step = idx;
                                    return Err(e);
                                }
                            }
                        }
                    }
                    self.rec(|| line);
                }
                if a == Applied::Done {
                    self.stats.bump(&format!("steps.{}", s.kind()));
                } else {
                    self.stats.bump("steps.skipped");
                }
                Ok(a)
            }
            Err(mut e) => {
                e.step = idx;
                Err(e)
            }
        }
    }

    fn step_inner(&mut self, s: &Step) -> Result<Applied, Failure> {
        match s {
            Step::Empty { .. } | Step::EmptyCap { .. } => {
                let (i, own_cap) = match s {
                    Step::EmptyCap { i, cap } => (i, Some(*cap)),
                    Step::Empty { i } => (i, None),
                    _ => unreachable!(),
                };
                if *i >= self.gs.len() || self.gs[*i].is_some() {
                    return Ok(Applied::Skipped);
                }
                let cap = own_cap.unwrap_or(self.view.cfg.cap);
                let g = match guarded(|| Sodg::<N>::empty(cap)) {
                    Ok(g) => g,
                    Err(c) => return fail("panic.in-contract-call", clauses::C07, format!("empty({cap}): {c:?}")),
                };
                let fam = self.view.next_family;
                self.view.next_family += 1;
                let (mc, mn) = (own_cap.unwrap_or(self.view.cfg.contract_cap()), self.view.cfg.contract_n());
                self.new_inst(*i, g, RefGraph::new(mc, mn), Origin::Fresh, fam)?;
                self.hash_step(s, "");
                Ok(Applied::Done)
            }
            Step::Add { i, v } => {
                let Some(v) = self.id(*v) else { return Ok(Applied::Skipped) };
                if !self.targetable(*i) || !self.view.insts[*i].as_ref().unwrap().m.can_add(v) {
                    return Ok(Applied::Skipped);
                }
                self.op_with_followers(*i, &Op::Add(v))?;
                self.hash_step(s, "");
                Ok(Applied::Done)
            }
            Step::Bind { i, a, b, l } => {
                let (Some(a), Some(b)) = (self.id(*a), self.id(*b)) else {
                    return Ok(Applied::Skipped);
                };
                if !self.targetable(*i) || !self.view.insts[*i].as_ref().unwrap().m.can_bind(a, b, l) {
                    return Ok(Applied::Skipped);
                }
                // followers must be in contract too (they are, unless they diverged: then the
                // divergence has already been reported)
                self.view.see_label(l);
                self.op_with_followers(*i, &Op::Bind(a, b, l.clone()))?;
                self.hash_step(s, "");
                Ok(Applied::Done)
            }
            Step::Put { i, v, d } => {
                let Some(v) = self.id(*v) else { return Ok(Applied::Skipped) };
                if !self.targetable(*i) || !self.view.insts[*i].as_ref().unwrap().m.can_put(v) {
                    return Ok(Applied::Skipped);
                }
                self.op_with_followers(*i, &Op::Put(v, d.clone()))?;
                self.hash_step(s, "");
                Ok(Applied::Done)
            }
            Step::PutRaw { i, v, d, enc } => {
                let Some(v) = self.id(*v) else { return Ok(Applied::Skipped) };
                if !self.targetable(*i) || !self.view.insts[*i].as_ref().unwrap().m.can_put(v) {
                    return Ok(Applied::Skipped);
                }
                self.op_with_followers(*i, &Op::PutRaw(v, d.clone(), *enc))?;
                self.hash_step(s, "");
                Ok(Applied::Done)
            }
            Step::Data { i, v } => {
                let Some(v) = self.id(*v) else { return Ok(Applied::Skipped) };
                if !self.targetable(*i) || !self.view.insts[*i].as_ref().unwrap().m.can_data(v) {
                    return Ok(Applied::Skipped);
                }
                let r = self.op_with_followers(*i, &Op::Data(v))?;
                self.rec(|| format!("data(ν{v})={r:?}"));
                self.hash_step(s, &format!("{r:?}"));
                Ok(Applied::Done)
            }
            Step::NextId { i, var } => {
                if !self.targetable(*i) {
                    return Ok(Applied::Skipped);
                }
                self.refresh_hints(*i);
                for (f, _) in self.view.followers(*i) {
                    self.refresh_hints(f);
                }
                let inst = self.view.insts[*i].as_ref().unwrap();
                // C05's precondition: an absent id at or above the allocator position remains.
                // Both the model's position and the hook's must agree that it does.
                let model_pos = inst.m.returned.iter().next_back().map_or(0, |x| x + 1);
                let ok_model = inst.m.has_absent_at_or_above(model_pos);
                let ok_hook = inst.m.has_absent_at_or_above(inst.next_v);
                if ok_model != ok_hook {
                    self.stats.bump("probe.next_id_gate_disagrees");
                }
                if !(ok_model && ok_hook) || inst.poisoned || inst.m.adoptive {
                    return Ok(Applied::Skipped);
                }
                for (f, _) in self.view.followers(*i) {
                    let fi = self.view.insts[f].as_ref().unwrap();
                    if !fi.m.has_absent_at_or_above(fi.next_v) {
                        return Ok(Applied::Skipped);
                    }
                }
                let r = self.op_with_followers(*i, &Op::NextId)?;
                if let OpRet::Id(id) = r {
                    self.view.set_var(*var, id);
                    self.rec(|| format!("next_id()={id}"));
                    self.hash_step(s, &format!("{id}"));
                }
                Ok(Applied::Done)
            }
            Step::Clone { src, dst, link } => self.do_clone(*src, *dst, *link, s),
            Step::Storm { i, v, a, t1, t2, times } => {
                let (Some(v), Some(t1), Some(t2)) = (self.id(*v), self.id(*t1), self.id(*t2)) else {
                    return Ok(Applied::Skipped);
                };
                if !self.targetable(*i) || *times < 3 || v == t1 || v == t2 || t1 == t2 {
                    return Ok(Applied::Skipped);
                }
                {
                    // in contract: dry run of the first two binds on the model (later ones change no group)
                    let inst = self.view.insts[*i].as_ref().unwrap();
                    if inst.poisoned || inst.m.adoptive {
                        return Ok(Applied::Skipped);
                    }
                    let mut mm = inst.m.clone();
                    if !mm.can_bind(v, t1, a) {
                        return Ok(Applied::Skipped);
                    }
                    mm.bind(v, t1, a);
                    if !mm.can_bind(v, t2, a) {
                        return Ok(Applied::Skipped);
                    }
                }
                self.view.see_label(a);
                // the first two go through all clauses, the rest are raw, the last one is judged again
                self.op_with_followers(*i, &Op::Bind(v, t1, a.clone()))?;
                self.op_with_followers(*i, &Op::Bind(v, t2, a.clone()))?;
                let mut insts = vec![*i];
                insts.extend(self.view.followers(*i).into_iter().map(|(f, _)| f));
                let la = a.to_label();
                for inst in insts {
                    let g = self.gs[inst].as_mut().unwrap();
                    // the lookup right before the storm (it answers t2) and the one right after it, with
                    // no other lookup on this graph in between; the last raw bind goes to t1
                    let r = guarded(|| {
                        let before = g.kid(v, la);
                        for k in 2..*times {
                            g.bind(v, if k + 1 == *times || k % 2 == 0 { t1 } else { t2 }, la);
                        }
                        (before, g.kid(v, la))
                    });
                    match r {
                        Err(c) => {
                            return fail("panic.in-contract-call", clauses::PANIC_GC, format!("a storm of {times} re-binds of ν{v} .{a:?} panicked: {c:?}"));
                        }
                        Ok((before, after)) => {
                            if before != Some(t2) || after != Some(t1) {
                                return fail(
                                    "kid.differs-from-last-bind",
                                    clauses::C03,
                                    format!("kid(ν{v}, {a:?}) was {before:?} before and is {after:?} after {} re-binds that ended on ν{t1} (the one before them was to ν{t2})", times - 2),
                                );
                            }
                        }
                    }
                }
                // the closing bind goes to t1: whatever was looked up after the second bind (t2) is stale
                let last = t1;
                self.stats.bump("probe.rebind_storm");
                self.stats.add("storm.raw_binds", (*times as u64).saturating_sub(3));
                // make sure the closing operation is swept in full, whatever the observation rate
                let keep = self.view.cfg.sweep_every;
                self.view.cfg.sweep_every = 1;
                let r = self.op_with_followers(*i, &Op::Bind(v, last, a.clone()));
                self.view.cfg.sweep_every = keep;
                r?;
                self.hash_step(s, "");
                Ok(Applied::Done)
            }
            Step::Repeat { i, kind, v, times } => {
                let Some(v) = self.id(*v) else { return Ok(Applied::Skipped) };
                if !self.targetable(*i) || *times < 2 || *times > 5_000 {
                    return Ok(Applied::Skipped);
                }
                let inst = self.view.insts[*i].as_ref().unwrap();
                if inst.poisoned || !inst.m.is_present(v) {
                    return Ok(Applied::Skipped);
                }
                let read_already = inst.m.present[&v].data.is_some() && !inst.m.present[&v].unread;
                if *kind == 1 && !read_already {
                    return Ok(Applied::Skipped);
                }
                if *kind == 5 {
                    // put + first read, over and over: the reads must not be able to kill (the vertex
                    // is ungrouped, or another member of its group stays unread throughout)
                    let mv = &inst.m.present[&v];
                    let safe = match mv.group {
                        None => true,
                        Some(g) => inst.m.groups[&g].iter().any(|x| *x != v && inst.m.present[x].unread),
                    };
                    if !safe || !inst.m.can_put(v) {
                        return Ok(Applied::Skipped);
                    }
                }
                let mut insts = vec![*i];
                insts.extend(self.view.followers(*i).into_iter().map(|(f, _)| f));
                let ctr = self.view.put_counter;
                self.disk.borrow_mut().settle();
                for inst in &insts {
                    let g = self.gs[*inst].as_mut().unwrap();
                    let r = guarded(|| {
                        for k in 0..(*times - 1) {
                            // every call is progress: the watchdog is after a call that does not end
                            crate::run::HEARTBEAT.fetch_add(1, std::sync::atomic::Ordering::Relaxed);
                            match kind {
                                0 => {
                                    let mut d = (ctr + k as u64).to_le_bytes().to_vec();
                                    d.push(0xC3);
                                    g.put(v, &Hex::from_vec(d));
                                }
                                1 => drop(g.data(v)),
                                2 => g.add(v),
                                3 => drop(g.clone()),
                                5 => {
                                    let mut d = (ctr + k as u64).to_le_bytes().to_vec();
                                    d.push(0xC5);
                                    g.put(v, &Hex::from_vec(d));
                                    drop(g.data(v));
                                }
                                _ => drop(g.save(Path::new("repeat-scratch.sodg"))),
                            }
                        }
                    });
                    let _ = self.disk.borrow_mut().files.remove("repeat-scratch.sodg");
                    if let Err(c) = r {
                        return fail("panic.in-contract-call", clauses::PANIC_GC, format!("{times} calls of kind {kind} on ν{v} in a row panicked: {c:?}"));
                    }
                }
                self.stats.bump(&format!("probe.repeat_storm_kind{kind}"));
                self.stats.add("storm.raw_repeats", (*times - 1) as u64);
                // the closing call of the same kind is judged in full
                let keep = self.view.cfg.sweep_every;
                self.view.cfg.sweep_every = 1;
                let r = match kind {
                    0 => {
                        self.view.put_counter += *times as u64;
                        let mut d = (ctr + *times as u64).to_le_bytes().to_vec();
                        d.push(0xC4);
                        // the raw puts made the datum unread again, as the model's one put does
                        self.op_with_followers(*i, &Op::Put(v, d)).map(|_| ())
                    }
                    1 => self.op_with_followers(*i, &Op::Data(v)).map(|_| ()),
                    2 => self.op_with_followers(*i, &Op::Add(v)).map(|_| ()),
                    5 => {
                        self.view.put_counter += *times as u64;
                        let mut d = (ctr + *times as u64).to_le_bytes().to_vec();
                        d.push(0xC6);
                        self.op_with_followers(*i, &Op::Put(v, d)).and_then(|_| self.op_with_followers(*i, &Op::Data(v))).map(|_| ())
                    }
                    _ => {
                        // nothing may have changed: an add() of the present vertex closes the storm
                        self.op_with_followers(*i, &Op::Add(v)).map(|_| ())
                    }
                };
                self.view.cfg.sweep_every = keep;
                r?;
                self.hash_step(s, "");
                Ok(Applied::Done)
            }
            Step::ReaddStorm { i, v, a, reader, w, b, t1, t2, times } => {
                let (Some(v), Some(reader), Some(w), Some(t1), Some(t2)) = (self.id(*v), self.id(*reader), self.id(*w), self.id(*t1), self.id(*t2)) else {
                    return Ok(Applied::Skipped);
                };
                if !self.targetable(*i) || !self.view.followers(*i).is_empty() || *times < 3 {
                    return Ok(Applied::Skipped);
                }
                {
                    let inst = self.view.insts[*i].as_ref().unwrap();
                    let m = &inst.m;
                    if inst.poisoned || m.adoptive || !m.is_present(v) || !m.is_present(reader) {
                        return Ok(Applied::Skipped);
                    }
                    // the read must collect v (and not w, t1, t2), v must have the edge, the storm must be in contract
                    let mut mm = m.clone();
                    if mm.kid(v, a).is_none() || !mm.present[&reader].unread {
                        return Ok(Applied::Skipped);
                    }
                    let out = mm.data(reader);
                    if !out.removed.contains(&v) || [w, t1, t2].iter().any(|x| !mm.is_present(*x)) || w == t1 || w == t2 || t1 == t2 {
                        return Ok(Applied::Skipped);
                    }
                    mm.add(v);
                    if !mm.can_bind(w, t1, b) {
                        return Ok(Applied::Skipped);
                    }
                    mm.bind(w, t1, b);
                    if !mm.can_bind(w, t2, b) {
                        return Ok(Applied::Skipped);
                    }
                }
                self.view.see_label(a);
                self.view.see_label(b);
                let (la, lb) = (a.to_label(), b.to_label());
                // no sweep from the first lookup to the last: the whole passage runs at observation rate "never"
                let keep = self.view.cfg.sweep_every;
                self.view.cfg.sweep_every = usize::MAX;
                let g = self.gs[*i].as_ref().unwrap();
                let before = guarded(|| g.kid(v, la)).ok().flatten();
                let r = (|| -> Result<(), Failure> {
                    self.op_with_followers(*i, &Op::Data(reader))?;
                    self.op_with_followers(*i, &Op::Add(v))?;
                    self.op_with_followers(*i, &Op::Bind(w, t1, b.clone()))?;
                    self.op_with_followers(*i, &Op::Bind(w, t2, b.clone()))?;
                    Ok(())
                })();
                self.view.cfg.sweep_every = keep;
                r?;
                let g = self.gs[*i].as_mut().unwrap();
                let r = guarded(|| {
                    for k in 2..*times {
                        g.bind(w, if k % 2 == 0 { t1 } else { t2 }, lb);
                    }
                    g.kid(v, la)
                });
                self.stats.bump("probe.readd_storm");
                match r {
                    Err(c) => return fail("panic.in-contract-call", clauses::PANIC_GC, format!("a storm of {times} re-binds panicked: {c:?}")),
                    Ok(after) => {
                        if after.is_some() {
                            return fail(
                                "kid.differs-from-last-bind",
                                &["C03", "C04"],
                                format!("kid(ν{v}, {a:?}) was {before:?}; ν{v} was collected and added again; after {times} edge changes elsewhere kid(ν{v}, {a:?}) is {after:?} although nothing was bound since ν{v} was re-created"),
                            );
                        }
                    }
                }
                // bring the model in line with the last raw bind and judge the state in full
                let last = if (*times - 1) % 2 == 0 { t1 } else { t2 };
                let keep = self.view.cfg.sweep_every;
                self.view.cfg.sweep_every = 1;
                let r = self.op_with_followers(*i, &Op::Bind(w, last, b.clone()));
                self.view.cfg.sweep_every = keep;
                r?;
                self.hash_step(s, "");
                Ok(Applied::Done)
            }
            Step::SliceStorm { src, v, times } => {
                let Some(v) = self.id(*v) else { return Ok(Applied::Skipped) };
                if !self.usable(*src) || self.view.insts[*src].as_ref().unwrap().poisoned {
                    return Ok(Applied::Skipped);
                }
                let m = &self.view.insts[*src].as_ref().unwrap().m;
                if !m.closure(v, &|_, _, _| true).is_some_and(|c| c.len() <= 14) {
                    return Ok(Applied::Skipped);
                }
                let g = self.gs[*src].as_ref().unwrap();
                let r = guarded(|| {
                    for _ in 0..*times {
                        crate::run::HEARTBEAT.fetch_add(1, std::sync::atomic::Ordering::Relaxed);
                        drop(g.slice(v));
                    }
                });
                if let Err(c) = r {
                    return fail("panic.in-contract-call", clauses::PANIC_SLICE, format!("{times} slices of ν{v} in a row panicked: {c:?}"));
                }
                self.stats.bump("probe.slice_storm");
                self.stats.add("storm.raw_slices", *times as u64);
                self.check_untouched(&[])?;
                self.hash_step(s, "");
                Ok(Applied::Done)
            }
            Step::CloneFrom { src, dst } => {
                // the destination exists and was used; afterwards it is the source's twin in everything
                if src == dst || !self.usable(*src) || !self.targetable(*dst) || !self.view.followers(*dst).is_empty() {
                    return Ok(Applied::Skipped);
                }
                let (si, di) = (self.view.insts[*src].as_ref().unwrap(), self.view.insts[*dst].as_ref().unwrap());
                if si.poisoned || di.poisoned || si.m.adoptive || di.m.adoptive {
                    return Ok(Applied::Skipped);
                }
                let mut d = self.gs[*dst].take().unwrap();
                let sg = self.gs[*src].as_ref().unwrap();
                let r = guarded(|| d.clone_from(sg));
                self.gs[*dst] = Some(d);
                if let Err(c) = r {
                    return fail("panic.in-contract-call", clauses::PANIC_CLONE, format!("clone_from() panicked: {c:?}"));
                }
                self.stats.bump("probe.clone_from_into_used_graph");
                let si = self.view.insts[*src].as_ref().unwrap();
                let (m, fam, readd, merged, cl, sl, sc, log) =
                    (si.m.clone(), si.family, si.readd_seen, si.merged, si.crossed_load, si.suspect_load, si.suspect_clone, si.oplog.clone());
                let probes = self.view.probe_labels();
                let obs = match observe(self.gs[*dst].as_ref().unwrap(), &probes, false) {
                    Ok(o) => o,
                    Err(c) => return fail("query.panic", clauses::PANIC_CLONE, format!("{c:?}")),
                };
                {
                    let di = self.view.insts[*dst].as_mut().unwrap();
                    di.m = m;
                    di.family = fam;
                    di.readd_seen = readd;
                    di.merged = merged;
                    di.crossed_load = cl;
                    di.crossed_clone = true;
                    di.suspect_load = sl;
                    di.suspect_clone = sc;
                    di.oplog = log;
                    di.last_obs = obs;
                    di.version += 1;
                    di.age += 1;
                    di.origin = Origin::Cloned;
                }
                let (a, b) = (self.deep(*src)?, self.deep(*dst)?);
                if let Some(d) = a.diff(&b) {
                    let owners: clauses::Owners = match a.diff_kind(&b) {
                        Some("keys") => &["C10", "C01"],
                        Some("edges" | "data") => &["C10", "C03"],
                        _ => clauses::C10,
                    };
                    return fail("clone.sweep-differs", owners, format!("right after clone_from(): {d}"));
                }
                // what the two graphs hand out, value and encoding (both are public: `Hex` is an
                // enum with public variants), read on a copy of each so that nothing is consumed
                {
                    let keys = a.keys.clone();
                    let (sg, dg) = (self.gs[*src].as_ref().unwrap(), self.gs[*dst].as_ref().unwrap());
                    let r = guarded(|| {
                        let (mut x, mut y) = (sg.clone(), dg.clone());
                        let mut bad = None;
                        for v in keys {
                            if !x.keys().contains(&v) || !y.keys().contains(&v) {
                                continue;
                            }
                            let (p, q) = (x.data(v), y.data(v));
                            let same = match (&p, &q) {
                                (None, None) => true,
                                (Some(Hex::Bytes(..)), Some(Hex::Bytes(..))) | (Some(Hex::Vector(_)), Some(Hex::Vector(_))) => p.as_ref().map(Hex::bytes) == q.as_ref().map(Hex::bytes),
                                _ => false,
                            };
                            if !same && bad.is_none() {
                                bad = Some(format!("data(ν{v}) of the source is {p:?}, of the copy {q:?}"));
                            }
                        }
                        bad
                    });
                    self.stats.bump("probe.clone_from_answers_compared");
                    match r {
                        Ok(None) => {}
                        Ok(Some(d)) => return fail("clone.answer-differs", &["C10", "C03"], format!("right after clone_from(): {d}")),
                        Err(c) => return fail("panic.in-contract-call", clauses::PANIC_CLONE, format!("reading a copy made by clone_from() panicked: {c:?}")),
                    }
                }
                {
                    let x = guarded(|| self.gs[*src].as_ref().unwrap().verif_snapshot()).ok();
                    let y = guarded(|| self.gs[*dst].as_ref().unwrap().verif_snapshot()).ok();
                    if x.is_none() || x != y {
                        self.view.insts[*dst].as_mut().unwrap().suspect_clone = true;
                        self.stats.bump("probe.clone_snapshot_differs");
                    }
                }
                self.refresh_hints(*dst);
                self.check_untouched(&[*dst])?;
                self.hash_step(s, "");
                Ok(Applied::Done)
            }
            Step::Unlink { i } => {
                if !self.usable(*i) {
                    return Ok(Applied::Skipped);
                }
                self.view.insts[*i].as_mut().unwrap().leader = None;
                Ok(Applied::Done)
            }
            Step::Drop { i } => {
                if !self.usable(*i) {
                    return Ok(Applied::Skipped);
                }
                self.drop_inst(*i);
                self.check_untouched(&[])?;
                self.hash_step(s, "");
                Ok(Applied::Done)
            }
            Step::Save { i, path, fault } => self.do_save(*i, *path, *fault, s),
            Step::Load { path, dst, fault, link } => self.do_load(*path, *dst, *fault, *link, s),
            Step::Crash { loss, recover } => {
                self.do_crash(loss, recover)?;
                self.hash_step(s, "");
                Ok(Applied::Done)
            }
            Step::Reseed { seed } => {
                sodg::verif::collections::set_hash_seed(*seed ^ self.view.cfg.hash_xor);
                self.stats.bump("fault.hash_reseed");
                Ok(Applied::Done)
            }
            Step::CutAll { path, sample } => self.do_cut_all(*path, sample, s),
            Step::Drain { i, on_clone, order } => self.do_drain(*i, *on_clone, *order, s),
            Step::Slice { src, v, pred, seeds, keep } => self.do_slice(*src, *v, *pred, seeds, *keep, s),
            Step::Merge { dst, src, left, right } => self.do_merge(*dst, *src, *left, *right, s),
            Step::Script { i, cmds, style, var, name } => self.do_script(*i, cmds, *style, *var, name, s),
            Step::Script2 { i, p, l1, l2, a, b, twice } => self.do_script2(*i, *p, l1, l2, a, b, *twice, s),
            Step::Damage { path, kind } => self.do_damage(*path, *kind),
            Step::Oob { i, call } => self.do_oob(*i, call),
        }
    }

    fn do_clone(&mut self, src: usize, dst: usize, link: bool, s: &Step) -> Result<Applied, Failure> {
        if !self.usable(src) || dst >= self.gs.len() || self.gs[dst].is_some() {
            return Ok(Applied::Skipped);
        }
        let g = self.gs[src].as_ref().unwrap();
        let c = match guarded(|| g.clone()) {
            Ok(c) => c,
            Err(e) => {
                if self.view.insts[src].as_ref().unwrap().poisoned {
                    self.stats.bump("poisoned.call_panicked");
                    return Ok(Applied::Done);
                }
                return fail("panic.in-contract-call", clauses::PANIC_CLONE, format!("clone() panicked: {e:?}"));
            }
        };
        let si = self.view.insts[src].as_ref().unwrap();
        let (m, fam, poisoned) = (si.m.clone(), si.family, si.poisoned);
        let (readd, merged, src_next) = (si.readd_seen, si.merged, si.next_v);
        let (cl, log) = (si.crossed_load, si.oplog.clone());
        let (sl, sc) = (si.suspect_load, si.suspect_clone);
        self.new_inst(dst, c, m, Origin::Cloned, fam)?;
        {
            let di = self.view.insts[dst].as_mut().unwrap();
            di.poisoned = poisoned;
            di.readd_seen = readd;
            di.merged = merged;
            di.crossed_load = cl;
            di.crossed_clone = true;
            di.suspect_load = sl;
            di.suspect_clone = sc;
            di.oplog = log;
        }
        self.stats.bump("probe.clone_made");
        if poisoned {
            return Ok(Applied::Done);
        }
        // C10, immediate: the copy answers every query as the original does
        let (a, b) = (self.deep(src)?, self.deep(dst)?);
        if let Some(d) = a.diff(&b) {
            let owners: clauses::Owners = match a.diff_kind(&b) {
                Some("keys") => &["C10", "C01"],
                Some("edges" | "data") => &["C10", "C03"],
                _ => clauses::C10,
            };
            let f = fail::<()>("clone.sweep-differs", owners, format!("right after clone(): {d}")).unwrap_err();
            if self.owned(&f) {
                return Err(f);
            }
            // observational and not this check's business: the copy lives on under the source's model
            self.stats.bump("foreign.passed_over.clone.sweep-differs");
        }
        self.refresh_hints(dst);
        {
            // exculpation only: a copy whose complete internal state equals the original's cannot
            // be the reason for a later divergence
            let a = guarded(|| self.gs[src].as_ref().unwrap().verif_snapshot()).ok();
            let b = guarded(|| self.gs[dst].as_ref().unwrap().verif_snapshot()).ok();
            if a.is_none() || a != b {
                self.view.insts[dst].as_mut().unwrap().suspect_clone = true;
                self.stats.bump("probe.clone_snapshot_differs");
            }
        }
        if self.view.insts[dst].as_ref().unwrap().next_v != src_next {
            // representation, not behaviour: steer only (the lockstep next_id comparison decides)
            self.stats.bump("probe.clone_allocator_position_differs");
        }
        if link {
            self.view.insts[dst].as_mut().unwrap().leader = Some((src, LinkKind::Clone));
        }
        self.check_untouched(&[dst])?;
        self.hash_step(s, "");
        Ok(Applied::Done)
    }

    fn do_save(&mut self, i: usize, path: usize, fault: WFault, s: &Step) -> Result<Applied, Failure> {
        if !self.usable(i) || path >= self.view.paths.len() {
            return Ok(Applied::Skipped);
        }
        let poisoned = self.view.insts[i].as_ref().unwrap().poisoned;
        let name = path_name(path);
        let deep = if poisoned { None } else { Some(self.deep(i)?) };
        // reference image: what a complete save of this graph looks like (no fault, scratch path).
        // Whatever the faulted save leaves behind is classified against it, so the harness does
        // not have to assume how save() writes (in place, streaming, temp file + rename, fsync).
        // Only a faulted save needs it: every save() the harness issues on its own runs on the same
        // thread as the code under test and would wash out whatever a failed save() left behind in
        // that code's hidden state (a scratch buffer that is cleared only on success, say) before the
        // next save() of the plan meets it.
        let reference: Option<Vec<u8>> = if poisoned || matches!(fault, WFault::None | WFault::CrashAfter) {
            None
        } else {
            let refname = "reference.sodg";
            let g = self.gs[i].as_ref().unwrap();
            // on a copy, so that the graph under test sees exactly the save() calls of the plan
            self.disk.borrow_mut().settle();
            let r = guarded(|| g.clone().save(Path::new(refname)));
            let bytes = {
                let mut d = self.disk.borrow_mut();
                d.disarm();
                let names: Vec<String> = d.files.keys().filter(|k| !k.starts_with("image-")).cloned().collect();
                let mut b = None;
                for n in names {
                    let f = d.files.remove(&n);
                    if n == refname {
                        b = f.map(|f| f.bytes);
                    }
                }
                b
            };
            match r {
                Ok(Ok(_)) => bytes,
                Ok(Err(e)) => {
                    return fail(
                        "save.fails-without-fault",
                        clauses::C08,
                        format!("save() failed on a healthy disk: {e:#}"),
                    )
                }
                Err(c) => return fail("panic.in-contract-call", clauses::PANIC_IO, format!("save() panicked: {c:?}")),
            }
        };
        let before: Option<Vec<u8>> = self.disk.borrow().content(&name).map(<[u8]>::to_vec);
        self.disk.borrow_mut().arm_write(fault);
        let g = self.gs[i].as_ref().unwrap();
        let os_path = path_os(path);
        let r = guarded(|| g.save(&os_path));
        let (fired, accepted, recreated) = {
            let mut d = self.disk.borrow_mut();
            let x = (d.fired, d.accepted, d.touched.contains(&name));
            d.disarm();
            // temporary files a crashed save may have left are not what recovery reads
            let names: Vec<String> = d.files.keys().filter(|k| !k.starts_with("image-")).cloned().collect();
            for n in names {
                d.files.remove(&n);
            }
            x
        };
        let after: Option<Vec<u8>> = self.disk.borrow().content(&name).map(<[u8]>::to_vec);
        let unsynced = self.disk.borrow().files.get(&name).is_some_and(|f| !f.synced);
        let size_on_disk = after.as_ref().map_or(0, Vec::len);
        let changed = before != after || recreated;
        if fired {
            self.stats.bump(&format!("fault.{}", s.kind()));
        }
        let inst = self.view.insts[i].as_ref().unwrap();
        let state = deep.map(|obs| {
            Rc::new(SavedState {
                m: inst.m.clone(),
                obs,
                src_inst: i,
                src_version: inst.version,
                len: size_on_disk,
                next_v: inst.next_v,
                oplog: inst.oplog.clone(),
                crossed_clone: inst.crossed_clone,
                merged: inst.merged,
                readd_seen: inst.readd_seen,
                suspect_load: inst.suspect_load,
                suspect_clone: inst.suspect_clone,
                snap: guarded(|| self.gs[i].as_ref().unwrap().verif_snapshot()).ok(),
            })
        });
        let acked = matches!(r, Ok(Ok(_))) && !fired;
        let pv = &mut self.view.paths[path];
        if changed || acked {
            let now = if poisoned {
                OnDisk::Unknown
            } else if acked {
                OnDisk::Complete(state.clone().unwrap())
            } else {
                match (&after, &reference) {
                    (None, _) => OnDisk::Missing,
                    (Some(a), Some(rf)) if a == rf => {
                        self.stats.bump("probe.unacknowledged_save_left_complete_image");
                        OnDisk::Complete(state.clone().unwrap())
                    }
                    (Some(a), Some(rf)) if rf.starts_with(a) => OnDisk::Torn,
                    _ => OnDisk::Unknown,
                }
            };
            if changed {
                pv.old = std::mem::replace(&mut pv.now, now);
            } else {
                pv.now = now;
            }
        } else if !fired {
            self.stats.bump("probe.failed_save_left_old_image_untouched");
        }
        pv.unsynced = unsynced;
        pv.size = size_on_disk;
        match r {
            Ok(Ok(size)) => {
                if fired {
                    if poisoned {
                        return Ok(Applied::Done);
                    }
                    return fail(
                        "save.reports-ok-after-failed-write",
                        clauses::C08,
                        format!("save() returned Ok({size}) although the disk refused the write ({fault:?}, {accepted} bytes accepted)"),
                    );
                }
                if !poisoned {
                    if size != size_on_disk {
                        self.stats.bump("probe.save_size_differs_from_file");
                    }
                    if inst.m.present.values().any(|v| v.unread) {
                        self.stats.bump("probe.save_with_unread_pending");
                    }
                    if inst.m.present.values().any(|v| v.data.as_ref().is_some_and(|d| d.len() > 8)) {
                        self.stats.bump("probe.heap_data_in_image");
                    }
                    if !inst.m.collected_ever.is_empty() {
                        self.stats.bump("probe.save_after_collection");
                    }
                    if pv.dirty_since_fault {
                        self.stats.bump("liveness.clean_save_after_fault_ok");
                    }
                }
                pv.dirty_since_fault = false;
                self.stats.bump("save.acknowledged");
                if matches!(fault, WFault::CrashAfter) {
                    self.view.must_crash = true;
                    self.stats.bump("fault.save!crashafter");
                }
            }
            Ok(Err(e)) => {
                if !fired && !poisoned {
                    return fail(
                        "save.fails-without-fault",
                        clauses::C08,
                        format!("save() failed on a healthy disk: {e:#}"),
                    );
                }
                pv.dirty_since_fault = true;
                self.stats.bump("save.failed_as_injected");
            }
            Err(Caught::Crash) => {
                pv.dirty_since_fault = true;
                self.view.must_crash = true;
            }
            Err(Caught::Panic(p)) => {
                if !poisoned {
                    return fail("panic.in-contract-call", clauses::PANIC_IO, format!("save() panicked: {p}"));
                }
            }
        }
        // a save, successful or not, changes no graph
        self.check_untouched(&[])?;
        self.hash_step(s, &format!("{size_on_disk}"));
        Ok(Applied::Done)
    }

    fn do_load(
        &mut self,
        path: usize,
        dst: usize,
        fault: RFault,
        link: Option<usize>,
        s: &Step,
    ) -> Result<Applied, Failure> {
        if path >= self.view.paths.len() || dst >= self.gs.len() || self.gs[dst].is_some() {
            return Ok(Applied::Skipped);
        }
        let name = path_name(path);
        self.disk.borrow_mut().arm_read(fault);
        let os_path = path_os(path);
        let r = guarded(|| Sodg::<N>::load(&os_path));
        let fired = {
            let mut d = self.disk.borrow_mut();
            let f = d.fired;
            d.disarm();
            f
        };
        if fired {
            self.stats.bump(&format!("fault.{}", s.kind()));
        }
        let now = self.view.paths[path].now.clone();
        let outcome = match &r {
            Ok(Ok(_)) => "ok",
            Ok(Err(_)) => "err",
            Err(_) => "panic",
        };
        self.rec(|| format!("load({path})={outcome}"));
        self.hash_step(s, outcome);
        match (now, r) {
            (_, Err(Caught::Crash)) => unreachable!("no crash is injected into load"),
            (OnDisk::Unknown, Ok(Ok(g))) => {
                let cap = self.view.cfg.contract_cap();
                let fam = self.view.next_family;
                self.view.next_family += 1;
                // nothing is known about this graph: only the memory observer watches it
                self.gs[dst] = Some(g);
                self.view.insts[dst] = Some(crate::view::InstView {
                    m: RefGraph::new(cap, N),
                    poisoned: true,
                    leader: None,
                    next_v: 0,
                    latent: false,
                    family: fam,
                    version: 0,
                    origin: Origin::Loaded,
                    last_obs: crate::obs::Obs::default(),
                    age: 0,
                    readd_seen: false,
                    merged: false,
                    crossed_load: true,
                    crossed_clone: false,
                    suspect_load: true,
                    suspect_clone: false,
                    oplog: Vec::new(),
                });
                self.stats.bump("damaged.loaded_ok");
                self.exercise_poisoned(dst);
                Ok(Applied::Done)
            }
            (OnDisk::Unknown, Ok(Err(_))) => {
                self.stats.bump("damaged.rejected");
                Ok(Applied::Done)
            }
            (OnDisk::Unknown, Err(Caught::Panic(_))) => {
                self.stats.bump("damaged.load_panicked");
                Ok(Applied::Done)
            }
            (_, Ok(Ok(_))) if fired => fail(
                "load.ignores-read-error",
                clauses::C08,
                format!("load() returned a graph although the disk reported {fault:?}"),
            ),
            (_, Ok(Err(_))) if fired => {
                self.stats.bump("load.failed_as_injected");
                Ok(Applied::Done)
            }
            (OnDisk::Missing, Ok(Err(_))) => {
                self.stats.bump("load.missing_rejected");
                Ok(Applied::Done)
            }
            (OnDisk::Missing, Ok(Ok(_))) => fail(
                "load.graph-from-nothing",
                clauses::C08,
                "load() returned a graph for a path that does not exist".to_string(),
            ),
            (OnDisk::Torn, Ok(Err(_))) => {
                self.stats.bump("load.torn_rejected");
                Ok(Applied::Done)
            }
            (OnDisk::Torn, Ok(Ok(g))) => {
                let keys = guarded(|| g.keys()).unwrap_or_default();
                fail(
                    "truncated-image.loaded",
                    clauses::C09,
                    format!(
                        "load() returned a graph (keys {keys:?}) from a torn image of {} bytes",
                        self.view.paths[path].size
                    ),
                )
            }
            (OnDisk::Torn, Err(Caught::Panic(p))) => fail(
                "truncated-image.panics",
                clauses::C09,
                format!("load() panicked on a torn image of {} bytes: {p}", self.view.paths[path].size),
            ),
            (OnDisk::Missing, Err(Caught::Panic(p))) | (OnDisk::Complete(_), Err(Caught::Panic(p))) => fail(
                "panic.in-contract-call",
                clauses::PANIC_IO,
                format!("load() panicked: {p}"),
            ),
            (OnDisk::Complete(_), Ok(Err(e))) => fail(
                "load.rejects-complete-image",
                clauses::C08,
                format!("load() failed on a complete image written by an acknowledged save(): {e:#}"),
            ),
            (OnDisk::Complete(st), Ok(Ok(g))) => {
                let mut m = st.m.clone();
                m.reset_lineage();
                let fam = self.view.next_family;
                self.view.next_family += 1;
                self.new_inst(dst, g, m, Origin::Loaded, fam)?;
                {
                    let di = self.view.insts[dst].as_mut().unwrap();
                    di.crossed_load = true;
                    di.crossed_clone = st.crossed_clone;
                    di.suspect_clone = st.suspect_clone;
                    let now = guarded(|| self.gs[dst].as_ref().unwrap().verif_snapshot()).ok();
                    let same = match (&st.snap, &now) {
                        (Some(a), Some(b)) => {
                            a.cap == b.cap && a.slots == b.slots && a.members == b.members && a.counters == b.counters
                        }
                        _ => false,
                    };
                    if !same {
                        self.stats.bump("probe.load_snapshot_differs");
                    }
                    let di = self.view.insts[dst].as_mut().unwrap();
                    di.suspect_load = st.suspect_load || !same;
                    di.merged = st.merged;
                    di.readd_seen = st.readd_seen;
                    di.oplog = st.oplog.clone();
                }
                self.stats.bump("load.complete_ok");
                if self.view.paths[path].dirty_since_fault {
                    self.stats.bump("probe.load_after_fault_on_path");
                }
                // C08, immediate round trip: every query answers as the saved graph did
                let obs = self.deep(dst)?;
                if let Some(d) = st.obs.diff(&obs) {
                    // the reloaded graph is part of the histories C01 and C03 quantify over (DESIGN §3)
                    let owners: clauses::Owners = match st.obs.diff_kind(&obs) {
                        Some("keys") => &["C08", "C01"],
                        Some("edges" | "data") => &["C08", "C03"],
                        _ => clauses::C08,
                    };
                    let f = fail::<()>("reload.sweep-differs", owners, format!("saved graph vs load(save(g)): {d}")).unwrap_err();
                    if self.owned(&f) || st.obs.keys != obs.keys {
                        return Err(f);
                    }
                    // observational and not this check's business: the reloaded graph lives on under
                    // the saved model
                    self.stats.bump("foreign.passed_over.reload.sweep-differs");
                }
                // the one permitted difference, stated positively: the allocator restarts
                // from the lowest absent id
                let lowest = (0..st.m.cap).find(|v| !st.m.is_present(*v));
                if let Some(lowest) = lowest {
                    let gg = self.gs[dst].as_ref().unwrap();
                    let verdict = match guarded(|| {
                        let mut c = gg.clone();
                        c.next_id()
                    }) {
                        Ok(id) if id == lowest => None,
                        Ok(id) => Some(format!("first next_id() after load() is {id}, lowest absent id is {lowest}")),
                        Err(c) => Some(format!("first next_id() after load() panicked: {c:?}")),
                    };
                    if let Some(msg) = verdict {
                        let f = fail::<()>("reload.allocator-restart", clauses::C08, msg).unwrap_err();
                        if self.owned(&f) {
                            return Err(f);
                        }
                        // asked on a copy, so nothing has changed: a check that does not own the
                        // clause goes on to its own clauses
                        self.stats.bump("foreign.passed_over.reload.allocator-restart");
                    }
                }
                self.refresh_hints(dst);
                if let Some(l) = link {
                    // lockstep only when the leader is still exactly the graph that was saved
                    if self.targetable(l)
                        && st.src_inst == l
                        && self.view.insts[l].as_ref().unwrap().version == st.src_version
                    {
                        self.view.insts[dst].as_mut().unwrap().leader = Some((l, LinkKind::Reload));
                        self.stats.bump("lockstep.reload_twins");
                    }
                }
                self.check_untouched(&[dst])?;
                Ok(Applied::Done)
            }
        }
    }

    /// A graph about which nothing is known (it came out of a damaged image): call every read-only
    /// query and, on a copy, every read, each caught separately. Only the memory observer judges.
    pub(crate) fn exercise_poisoned(&mut self, i: usize) {
        let Some(g) = self.gs[i].as_ref() else { return };
        let keys = guarded(|| g.keys()).unwrap_or_default();
        let mut calls = 0_u64;
        let mut panics = 0_u64;
        let mut run = |r: Result<(), Caught>| {
            calls += 1;
            if r.is_err() {
                panics += 1;
            }
        };
        run(guarded(|| drop(format!("{g:?}"))));
        run(guarded(|| drop(g.to_xml())));
        run(guarded(|| drop(g.to_dot())));
        for v in keys.iter().take(64) {
            run(guarded(|| drop(g.kids(*v).count())));
            run(guarded(|| drop(g.v_print(*v))));
            run(guarded(|| drop(g.inspect(*v))));
        }
        if let Ok(mut c) = guarded(|| g.clone()) {
            for v in keys.iter().take(64) {
                run(guarded(|| {
                    if let Some(h) = c.data(*v) {
                        let _ = h.print();
                        let _ = h.to_vec();
                        let _ = h.len();
                    }
                }));
            }
            self.disk.borrow_mut().settle();
            run(guarded(|| drop(c.save(Path::new("poisoned-copy.sodg")))));
            let _ = self.disk.borrow_mut().files.remove("poisoned-copy.sodg");
            run(guarded(move || drop(c)));
        }
        self.stats.add("poisoned.exercise_calls", calls);
        self.stats.add("poisoned.exercise_panics", panics);
    }

    /// The process dies. Whatever was not synced may be reduced by the power-loss
    /// decisions of the plan; the next incarnation recovers by loading.
    pub(crate) fn do_crash(&mut self, loss: &[(usize, Loss)], recover: &[(usize, usize)]) -> Result<(), Failure> {
        self.view.must_crash = false;
        self.view.incarnation += 1;
        self.stats.bump("fault.crash");
        if self
            .view
            .insts
            .iter()
            .flatten()
            .any(|x| !x.poisoned && x.m.present.values().any(|v| v.unread))
        {
            self.stats.bump("probe.restart_with_unread_pending");
        }
        for i in 0..self.gs.len() {
            if self.gs[i].is_some() {
                self.drop_inst(i);
            }
        }
        self.view.vars.clear();
        self.view.var_of.clear();
        let unsynced = self.disk.borrow_mut().crash();
        for (p, l) in loss {
            if *p >= self.view.paths.len() {
                continue;
            }
            let name = path_name(*p);
            if !unsynced.contains(&name) {
                continue;
            }
            let len_before = self.disk.borrow().content(&name).map_or(0, <[u8]>::len);
            let changed = self.disk.borrow_mut().lose(&name, *l);
            let pv = &mut self.view.paths[*p];
            match l {
                Loss::Keep => {}
                Loss::Old => {
                    pv.now = std::mem::take(&mut pv.old);
                    self.stats.bump("fault.powerloss_old_content");
                }
                Loss::Empty => {
                    if changed || len_before == 0 {
                        pv.now = if matches!(pv.now, OnDisk::Unknown) { OnDisk::Unknown } else { OnDisk::Torn };
                    }
                    self.stats.bump("fault.powerloss_empty");
                }
                Loss::Prefix(k) => {
                    if *k < len_before {
                        pv.now = if matches!(pv.now, OnDisk::Unknown) { OnDisk::Unknown } else { OnDisk::Torn };
                        self.stats.bump("fault.powerloss_prefix");
                    }
                }
            }
            pv.size = self.disk.borrow().content(&name).map_or(0, <[u8]>::len);
        }
        for pv in &mut self.view.paths {
            pv.unsynced = false;
            pv.old = OnDisk::Missing;
        }
        // after a crash everything on disk counts as settled
        for name in unsynced {
            self.disk.borrow_mut().lose(&name, Loss::Keep);
        }
        for (p, dst) in recover {
            let st = Step::Load {
                path: *p,
                dst: *dst,
                fault: RFault::None,
                link: None,
            };
            self.do_load(*p, *dst, RFault::None, None, &st)?;
            self.stats.bump("recovery.load_attempts");
            if self.usable(*dst) {
                self.stats.bump("recovery.graphs_restored");
            }
        }
        Ok(())
    }

    /// C09: every strict prefix of a complete image must be rejected.
    fn do_cut_all(&mut self, path: usize, sample: &[usize], s: &Step) -> Result<Applied, Failure> {
        if path >= self.view.paths.len() || !self.view.paths[path].now.is_complete() {
            return Ok(Applied::Skipped);
        }
        let name = path_name(path);
        let image: Vec<u8> = self.disk.borrow().content(&name).unwrap().to_vec();
        // the cut happens in place, at the path save() wrote, as a crash during the write would
        // leave it (whatever else save() keeps next to the file stays where it is)
        let original = self.disk.borrow().files.get(&name).cloned().unwrap();
        let scratch = name.as_str();
        let os_path = path_os(path);
        let cuts: Vec<usize> = if sample.is_empty() {
            (0..image.len()).collect()
        } else {
            let mut c: Vec<usize> = sample.iter().map(|k| k % image.len()).collect();
            c.extend(0..image.len().min(128));
            c.extend(image.len().saturating_sub(128)..image.len());
            c.sort_unstable();
            c.dedup();
            c
        };
        self.stats.bump("cut.images");
        if sample.is_empty() {
            self.stats.bump("cut.images_exhaustive");
        }
        self.stats.max("max.image_bytes", image.len() as u64);
        for k in cuts {
            crate::run::HEARTBEAT.fetch_add(1, std::sync::atomic::Ordering::Relaxed);
            self.disk.borrow_mut().set_content(scratch, image[..k].to_vec());
            let r = guarded(|| Sodg::<N>::load(&os_path));
            self.stats.bump("cut.points");
            if !matches!(r, Ok(Err(_))) {
                self.disk.borrow_mut().files.insert(name.clone(), original.clone());
            }
            match r {
                Ok(Err(_)) => {}
                Ok(Ok(g)) => {
                    let keys = guarded(|| g.keys()).unwrap_or_default();
                    return fail(
                        "truncated-image.loaded",
                        clauses::C09,
                        format!("image of {} bytes cut at {k}: load() returned a graph with keys {keys:?}", image.len()),
                    );
                }
                Err(c) => {
                    return fail(
                        "truncated-image.panics",
                        clauses::C09,
                        format!("image of {} bytes cut at {k}: load() panicked: {c:?}", image.len()),
                    );
                }
            }
        }
        self.disk.borrow_mut().files.insert(name.clone(), original);
        self.hash_step(s, "");
        Ok(Applied::Done)
    }

    /// Drain probe: read every unread datum in a seeded order; every group must die at
    /// exactly its last unread read (checked by run_op against the model).
    fn do_drain(&mut self, i: usize, on_clone: bool, order: u64, s: &Step) -> Result<Applied, Failure> {
        if !self.targetable(i) || self.view.insts[i].as_ref().unwrap().poisoned {
            return Ok(Applied::Skipped);
        }
        let target = if on_clone {
            let Some(slot) = self.view.free_slot() else {
                return Ok(Applied::Skipped);
            };
            let st = Step::Clone { src: i, dst: slot, link: false };
            self.do_clone(i, slot, false, &st)?;
            slot
        } else {
            i
        };
        let mut ids = self.view.insts[target].as_ref().unwrap().m.unread_ids();
        Rng::new(order).shuffle(&mut ids);
        self.stats.bump("probe.drain");
        for v in ids {
            if !self.view.insts[target].as_ref().unwrap().m.is_present(v) {
                continue;
            }
            let r = self.op_with_followers(target, &Op::Data(v))?;
            self.rec(|| format!("drain data(ν{v})={r:?}"));
            self.stats.bump("drain.reads");
        }
        // afterwards nothing is unread: every group that ever held a datum is gone
        if on_clone {
            self.drop_inst(target);
        }
        self.hash_step(s, "");
        Ok(Applied::Done)
    }
}
