//! The non-generic half of the simulated world: reference models, what the
//! harness knows about every file, the variable table. The generator reads
//! it, the executor maintains it.

use crate::model::RefGraph;
use crate::obs::Obs;
use crate::plan::{Cfg, Id, PLabel};
use std::collections::BTreeMap;
use std::rc::Rc;

pub const SLOTS: usize = 6;
pub const PATHS: usize = 4;

#[derive(Clone, Copy, Debug, PartialEq, Eq)]
pub enum LinkKind {
    /// follower was loaded from an image of the leader (C08)
    Reload,
    /// follower is a clone of the leader (C10)
    Clone,
}

#[derive(Clone, Copy, Debug, PartialEq, Eq)]
pub enum Origin {
    Fresh,
    Cloned,
    Loaded,
}

#[derive(Clone, Debug)]
pub struct InstView {
    pub m: RefGraph,
    pub poisoned: bool,
    pub leader: Option<(usize, LinkKind)>,
    /// allocator position, from the snapshot hook (gating and steering only)
    pub next_v: usize,
    /// the snapshot shows counter != recount or tag != membership (steering only, never an alarm)
    pub latent: bool,
    pub family: u32,
    pub version: u64,
    pub origin: Origin,
    pub last_obs: Obs,
    /// number of mutating steps applied since creation
    pub age: u64,
    /// an add() hit a present vertex or a collected id earlier in this run
    pub readd_seen: bool,
    /// this graph went through merge() as receiver
    pub merged: bool,
    /// this graph (or an ancestor) came out of load()
    pub crossed_load: bool,
    /// this graph (or an ancestor) came out of clone()
    pub crossed_clone: bool,
    /// some load() in the ancestry returned a graph whose complete internal state (hook snapshot,
    /// allocator position aside) differed from the saved one: only then may load() be blamed
    pub suspect_load: bool,
    /// likewise for clone(): the copy's snapshot differed from the original's
    pub suspect_clone: bool,
    /// every basic operation that led to this state, merges and scripts flattened into
    /// the add/bind/put calls they stand for (used to decide whose fault a divergence is)
    pub oplog: Vec<LogOp>,
}

#[derive(Clone, Debug)]
pub struct LogOp {
    pub op: crate::exec::Op,
    /// an add() that hit a present vertex
    pub add_present: bool,
}

#[derive(Clone, Debug)]
pub struct SavedState {
    pub m: RefGraph,
    pub obs: Obs,
    pub src_inst: usize,
    pub src_version: u64,
    pub len: usize,
    pub next_v: usize,
    pub oplog: Vec<LogOp>,
    pub crossed_clone: bool,
    pub merged: bool,
    pub readd_seen: bool,
    pub suspect_load: bool,
    pub suspect_clone: bool,
    pub snap: Option<sodg::verif::Snapshot>,
}

#[derive(Clone, Debug, Default)]
pub enum OnDisk {
    #[default]
    Missing,
    /// the bytes on disk are the complete image of this state
    Complete(Rc<SavedState>),
    /// the bytes on disk are a strict prefix (possibly empty) of an image
    Torn,
    /// the bytes were damaged at rest, or written by a poisoned graph: nothing is known
    Unknown,
}

impl OnDisk {
    pub fn is_complete(&self) -> bool {
        matches!(self, Self::Complete(_))
    }
}

#[derive(Clone, Debug, Default)]
pub struct PathView {
    pub now: OnDisk,
    /// what the path held before the last create (a power loss may bring it back)
    pub old: OnDisk,
    pub unsynced: bool,
    pub size: usize,
    /// the last save to this path failed or was torn and no clean save followed yet
    pub dirty_since_fault: bool,
}

#[derive(Clone, Debug)]
pub struct View {
    pub cfg: Cfg,
    pub insts: Vec<Option<InstView>>,
    pub paths: Vec<PathView>,
    pub vars: Vec<Option<usize>>,
    pub var_of: BTreeMap<usize, usize>,
    /// append-only, so probe vectors of different ages agree on their common prefix
    pub labels_seen: Vec<PLabel>,
    pub steps_done: usize,
    pub must_crash: bool,
    pub next_family: u32,
    pub incarnation: u32,
    pub put_counter: u64,
}

impl View {
    pub fn new(cfg: Cfg) -> Self {
        Self {
            cfg,
            insts: (0..SLOTS).map(|_| None).collect(),
            paths: (0..PATHS).map(|_| PathView::default()).collect(),
            vars: Vec::new(),
            var_of: BTreeMap::new(),
            labels_seen: Vec::new(),
            steps_done: 0,
            must_crash: false,
            next_family: 0,
            incarnation: 0,
            put_counter: 0,
        }
    }

    pub fn resolve(&self, id: Id) -> Option<usize> {
        match id {
            Id::L(v) => Some(v),
            Id::V(k) => self.vars.get(k).copied().flatten(),
        }
    }

    /// Refer to `v` by variable when it came out of next_id()/merge(), else literally.
    pub fn name(&self, v: usize) -> Id {
        match self.var_of.get(&v) {
            Some(k) if self.vars.get(*k).copied().flatten() == Some(v) => Id::V(*k),
            _ => Id::L(v),
        }
    }

    pub fn set_var(&mut self, k: usize, v: usize) {
        if self.vars.len() <= k {
            self.vars.resize(k + 1, None);
        }
        self.vars[k] = Some(v);
        self.var_of.insert(v, k);
    }

    pub fn see_label(&mut self, l: &PLabel) {
        // every bound label is compared through kids(); probing kid() for labels that are NOT bound
        // on a vertex is limited to the first 24 labels of a run
        if self.labels_seen.len() < 24 && !self.labels_seen.contains(l) {
            self.labels_seen.push(l.clone());
        }
    }

    pub fn fresh_var(&self) -> usize {
        self.vars.len()
    }

    pub fn live(&self) -> Vec<usize> {
        (0..self.insts.len())
            .filter(|i| self.insts[*i].is_some())
            .collect()
    }

    /// Instances the generator may target: live, not a follower.
    pub fn targets(&self) -> Vec<usize> {
        (0..self.insts.len())
            .filter(|i| matches!(&self.insts[*i], Some(x) if x.leader.is_none()))
            .collect()
    }

    pub fn free_slot(&self) -> Option<usize> {
        (0..self.insts.len()).find(|i| self.insts[*i].is_none())
    }

    pub fn followers(&self, i: usize) -> Vec<(usize, LinkKind)> {
        let mut out = Vec::new();
        for (j, x) in self.insts.iter().enumerate() {
            if let Some(x) = x {
                if let Some((l, k)) = x.leader {
                    if l == i {
                        out.push((j, k));
                    }
                }
            }
        }
        out
    }

    pub fn probe_labels(&self) -> Vec<PLabel> {
        let mut v = vec![PLabel::A(9_999)];
        v.extend(self.labels_seen.iter().cloned());
        v
    }
}

/// The four image paths of a run. Two of them share their file stem and differ only in the
/// extension, one of which is `.tmp`; the third is long and not ASCII (a multi-byte character
/// straddles every plausible byte offset counted from its end); the fourth is not UTF-8 at all.
/// This is the disk's name of the path (see `escape`); sodg gets `path_os()`.
pub fn path_name(p: usize) -> String {
    match p {
        0 => "image-work.sodg".to_string(),
        1 => "image-work.tmp".to_string(),
        2 => "image-図aя図bя図cя図dя図eя図fя図gя図hя図iя図jя図kя図lяxy.sodg".to_string(),
        _ => escape(b"image-\xFF\xFEraw\xE5.sodg"),
    }
}

/// The path as the operating system (and sodg) sees it.
pub fn path_os(p: usize) -> std::path::PathBuf {
    std::path::PathBuf::from(unescape(&path_name(p)))
}

/// File names are byte strings. The disk keys its files by `String`: bytes that are not part
/// of a valid UTF-8 sequence are kept as the private-use characters U+E000 + byte.
pub fn escape(bytes: &[u8]) -> String {
    let mut out = String::new();
    let mut rest = bytes;
    loop {
        match std::str::from_utf8(rest) {
            Ok(s) => {
                out.push_str(s);
                return out;
            }
            Err(e) => {
                let (good, bad) = rest.split_at(e.valid_up_to());
                out.push_str(std::str::from_utf8(good).unwrap_or(""));
                out.push(char::from_u32(0xE000 + u32::from(bad[0])).unwrap_or('?'));
                rest = &bad[1..];
            }
        }
    }
}

pub fn unescape(name: &str) -> std::ffi::OsString {
    use std::os::unix::ffi::OsStringExt;
    let mut out: Vec<u8> = Vec::new();
    for c in name.chars() {
        let u = c as u32;
        if (0xE000..0xE100).contains(&u) {
            out.push((u - 0xE000) as u8);
        } else {
            let mut b = [0_u8; 4];
            out.extend_from_slice(c.encode_utf8(&mut b).as_bytes());
        }
    }
    std::ffi::OsString::from_vec(out)
}
