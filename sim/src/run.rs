//! One simulated run: a step source (generator or recorded plan) driving the executor.

use crate::exec::{Exec, Failure};
use crate::gen::Gen;
use crate::plan::{Cfg, Step};
use crate::rng::H64;
use crate::stats::Stats;
use crate::view::View;

pub trait Source {
    fn next(&mut self, view: &View) -> Option<Step>;
}

impl Source for Gen {
    fn next(&mut self, view: &View) -> Option<Step> {
        Gen::next(self, view)
    }
}

pub struct Recorded<'a> {
    pub plan: &'a [Step],
    pub at: usize,
}

impl Source for Recorded<'_> {
    fn next(&mut self, _view: &View) -> Option<Step> {
        let s = self.plan.get(self.at).cloned();
        self.at += 1;
        s
    }
}

#[derive(Clone, Debug)]
pub struct RunOut {
    pub failure: Option<Failure>,
    pub plan: Vec<Step>,
    pub stats: Stats,
    pub trace: u64,
    pub record: Vec<String>,
    pub steps_done: usize,
}

pub fn plan_hash(cfg: &Cfg, plan: &[Step]) -> u64 {
    let mut h = H64::default();
    h.str(&format!("{cfg:?}"));
    for s in plan {
        h.str(&format!("{s:?}"));
    }
    h.finish()
}

fn run_n<const N: usize>(cfg: &Cfg, src: &mut dyn Source, hard_cap: usize, record: bool) -> RunOut {
    let made0 = sodg::verif::collections::containers_made();
    let mut ex: Exec<N> = Exec::new(cfg.clone());
    if record {
        ex.record = Some(Vec::new());
    }
    let mut plan = Vec::new();
    let mut failure = None;
    let mut idx = 0;
    while idx < hard_cap {
        let Some(s) = src.next(&ex.view) else { break };
        plan.push(s.clone());
        match ex.step(idx, &s) {
            Ok(_) => {}
            Err(f) => {
                failure = Some(f);
                break;
            }
        }
        idx += 1;
    }
    if failure.is_none() && ex.view.cfg.sweep_every > 1 {
        if let Err(mut f) = ex.final_sweep() {
            f.step = idx.saturating_sub(1);
            failure = Some(f);
        }
    }
    if failure.is_none() && ex.view.must_crash {
        // the run ended inside a dying save(): let the process die and restart once
        if let Err(mut f) = ex.do_crash(&[], &[]) {
            f.step = idx;
            failure = Some(f);
        }
    }
    let d = ex.disk.borrow().stats.clone();
    ex.stats.add("disk.creates", d.creates);
    ex.stats.add("disk.opens", d.opens);
    ex.stats.add("disk.write_calls", d.writes);
    ex.stats.add("disk.read_calls", d.reads);
    ex.stats.add("disk.syncs", d.syncs);
    ex.stats.add("disk.renames", d.renames);
    ex.stats.add("fault.eintr", d.eintr);
    ex.stats.add("fault.short_io", d.short_io);
    ex.stats.add("disk.bytes_written", d.bytes_written);
    ex.stats.add("disk.bytes_read", d.bytes_read);
    ex.stats.add("disk.mirror_writes", d.mirror_writes);
    ex.stats.add("disk.bypass_imports", d.bypass_imports);
    ex.stats.add("disk.metadata_calls", d.metadata_calls);
    ex.stats.add("hash.seeded_containers_made", sodg::verif::collections::containers_made() - made0);
    let steps_done = ex.view.steps_done;
    ex.finish();
    RunOut {
        failure,
        plan,
        stats: std::mem::take(&mut ex.stats),
        trace: ex.trace.finish(),
        record: ex.record.take().unwrap_or_default(),
        steps_done,
    }
}

/// Bumped at the start of every execution; the worker's watchdog reads it.
pub static HEARTBEAT: std::sync::atomic::AtomicU64 = std::sync::atomic::AtomicU64::new(0);

pub fn run(cfg: &Cfg, src: &mut dyn Source, hard_cap: usize, record: bool) -> RunOut {
    HEARTBEAT.fetch_add(1, std::sync::atomic::Ordering::Relaxed);
    match cfg.n {
        1 => run_n::<1>(cfg, src, hard_cap, record),
        2 => run_n::<2>(cfg, src, hard_cap, record),
        3 => run_n::<3>(cfg, src, hard_cap, record),
        4 => run_n::<4>(cfg, src, hard_cap, record),
        7 => run_n::<7>(cfg, src, hard_cap, record),
        16 => run_n::<16>(cfg, src, hard_cap, record),
        n => panic!("N={n} is not monomorphised"),
    }
}

pub fn replay(cfg: &Cfg, plan: &[Step], record: bool) -> RunOut {
    let mut src = Recorded { plan, at: 0 };
    run(cfg, &mut src, plan.len() + 1, record)
}

/// A source that writes every step to a journal (flushed) before handing it out, so the
/// plan survives the death of the process.
pub struct Journal<'a> {
    pub inner: &'a mut dyn Source,
    pub file: std::fs::File,
}

impl Source for Journal<'_> {
    fn next(&mut self, view: &View) -> Option<Step> {
        use std::io::Write;
        let s = self.inner.next(view)?;
        let _ = writeln!(self.file, "{}", serde_json::to_string(&s).unwrap());
        let _ = self.file.flush();
        Some(s)
    }
}
