//! Batches: the parent splits a range of run indices over worker processes,
//! collects their summaries, re-checks determinism on a sample, runs the pinned
//! regressions, prints VIOLATION / KNOWN-FINDING lines and writes the evidence file.

use crate::judge::{generate_and_run, judge_plan, minimise, minimise_with, Violation};
use crate::plan::{Cfg, Expect, Prelude, Replay, Step};
use crate::run::plan_hash;
use crate::stats::{Stats, STATE_SAMPLE};
use serde::{Deserialize, Serialize};
use std::collections::{BTreeMap, BTreeSet};
use std::io::Write;
use std::path::{Path, PathBuf};
use std::process::{Command, Stdio};
use std::sync::atomic::{AtomicU64, Ordering};
use std::sync::Arc;
use std::time::{Duration, Instant};

pub const DEFAULT_SEED: u64 = 20_260_926;
pub const CLAIMED: [&str; 13] = [
    "C01", "C02", "C03", "C04", "C05", "C06", "C07", "C08", "C09", "C10", "C11", "C13", "C19",
];

pub fn verif_dir() -> PathBuf {
    std::env::var("VERIF_DIR").map_or_else(|_| PathBuf::from("/verif"), PathBuf::from)
}

pub fn quick_runs(prop: &str) -> u64 {
    match prop {
        "C06" => 4_800,
        "C09" => 4_000,
        "C19" => 3_000,
        "C07" => 12_000,
        _ => 32_000,
    }
}

pub fn runs_for(prop: &str, thorough: bool) -> u64 {
    if let Ok(r) = std::env::var("VERIF_RUNS") {
        if let Ok(n) = r.parse() {
            return n;
        }
    }
    let q = quick_runs(prop);
    if thorough {
        q * 40
    } else {
        q
    }
}

#[derive(Serialize, Deserialize, Clone, Debug)]
pub struct ViolationRec {
    pub run: u64,
    pub clause: String,
    pub step: usize,
    pub message: String,
    pub replay: String,
    pub plan_len: usize,
    pub original_plan_len: usize,
    pub minimiser_executions: usize,
}

#[derive(Serialize, Deserialize, Clone, Debug, Default)]
pub struct WorkerOut {
    pub from: u64,
    pub to: u64,
    pub runs: u64,
    pub steps: u64,
    pub fault_free_runs: u64,
    pub fault_free_steps: u64,
    pub faulty_runs: u64,
    pub faulty_steps: u64,
    pub stats: Stats,
    pub nontrivial: BTreeSet<u64>,
    pub plans: BTreeSet<u64>,
    pub violations: Vec<ViolationRec>,
    pub violation_count: u64,
    pub foreign: BTreeMap<String, u64>,
    pub samples: Vec<serde_json::Value>,
    pub traces: BTreeMap<u64, u64>,
    pub wall_s: f64,
}

/// The property's own rule for "this run exercised something that matters".
pub fn nontrivial(prop: &str, s: &Stats) -> bool {
    let g = |k: &str| s.get(k);
    match prop {
        "C01" => {
            let other_kinds = ["steps.clone", "steps.slice", "steps.merge", "steps.save", "steps.load", "steps.next_id", "steps.crash", "steps.script"]
                .iter()
                .filter(|k| g(k) > 0)
                .count();
            g("probe.group_died") >= 1 && other_kinds >= 3
        }
        "C02" => {
            g("probe.group_died") >= 1
                && (g("probe.overwrite_unread") + g("probe.put_before_bind") + g("probe.readd_collected_id") + g("probe.add_present_grouped")) >= 1
        }
        "C03" => g("probe.bind_overwrites_label") >= 1 && g("probe.first_read") >= 1 && g("probe.group_died") >= 1,
        "C04" => g("probe.readd_collected_id") + g("probe.add_present_grouped") >= 1,
        "C05" => g("steps.next_id") >= 3 && (g("probe.group_died") + g("steps.clone") + g("steps.merge") + g("steps.script")) >= 1,
        "C06" => g("probe.group_died") >= 15,
        "C07" => g("steps.oob") + g("damaged.loaded_ok") + g("damaged.load_panicked") >= 1,
        "C08" => g("lockstep.reload_steps") >= 1 || (g("recovery.graphs_restored") >= 1 && g("steps.data") >= 1),
        "C09" => g("cut.images") >= 1 && g("steps.bind") >= 1,
        "C10" => g("lockstep.clone_steps") >= 1 || g("probe.clone_made") >= 1 && g("steps.data") >= 1,
        "C11" => g("merge.calls") >= 1 && g("merge.new_vertices") >= 1,
        "C13" => g("slice.calls") >= 1 && (g("probe.slice_is_proper_subgraph") + g("probe.slice_with_back_edge")) >= 1,
        "C19" => g("replica.executions") >= 2 && (g("steps.slice") + g("steps.merge") + g("steps.next_id")) >= 1,
        _ => false,
    }
}

pub fn nontrivial_rule(prop: &str) -> &'static str {
    match prop {
        "C01" => "a plan counts when at least one group was collected in it and at least three of the non-removing call kinds (clone, slice, merge, save, load, next_id, crash+recovery, script) were executed; distinct = distinct hash of (configuration, plan)",
        "C02" => "a plan counts when at least one group died and at least one of: overwriting put on unread data, put before bind, re-add of a collected id, add on a grouped vertex; distinct = distinct hash of (configuration, plan)",
        "C03" => "a plan counts when a label was re-bound, a datum was read for the first time and a group was collected; distinct = distinct hash of (configuration, plan)",
        "C04" => "a plan counts when add() hit a collected id or a grouped present vertex; distinct = distinct hash of (configuration, plan)",
        "C05" => "a plan counts with >= 3 next_id() calls and at least one collection, clone, merge or script; distinct = distinct hash of (configuration, plan)",
        "C06" => "a plan counts when >= 15 groups were collected in it (more than the 14 slots, so slots wrapped around); distinct = distinct hash of (configuration, plan)",
        "C07" => "a plan counts when it holds at least one caller fault or the load of a damaged image; distinct = distinct hash of (configuration, plan)",
        "C08" => "a plan counts when a reloaded twin ran at least one lockstep step, or a crash recovery restored a graph that was then read; distinct = distinct hash of (configuration, plan)",
        "C09" => "a plan counts when at least one image of a graph with edges had its prefixes enumerated; distinct = distinct hash of (configuration, plan)",
        "C10" => "a plan counts when a clone twin ran at least one lockstep step, or a clone was made and data was read afterwards; distinct = distinct hash of (configuration, plan)",
        "C11" => "a plan counts when a merge of two trees created at least one vertex; distinct = distinct hash of (configuration, plan)",
        "C13" => "a plan counts when a slice was a proper sub-graph or crossed a back edge; distinct = distinct hash of (configuration, plan)",
        "C19" => "a plan counts when at least two replicas were executed and it holds a slice, merge or next_id; distinct = distinct hash of (configuration, plan)",
        _ => "",
    }
}

fn sample_json(cfg: &Cfg, plan: &[Step]) -> serde_json::Value {
    let shown: Vec<&Step> = plan.iter().take(60).collect();
    serde_json::json!({
        "cfg": cfg,
        "plan_len": plan.len(),
        "first_steps": shown,
    })
}

pub fn write_replay(
    prop: &str,
    seed: u64,
    run: u64,
    tier: &str,
    cfg: &Cfg,
    replicas: &[Cfg],
    plan: &[Step],
    v: &Violation,
    original_len: usize,
    note: &str,
) -> String {
    write_replay_to(None, prop, seed, run, tier, cfg, replicas, plan, v, original_len, note, None)
}

#[allow(clippy::too_many_arguments)]
pub fn write_replay_to(
    file: Option<&Path>,
    prop: &str,
    seed: u64,
    run: u64,
    tier: &str,
    cfg: &Cfg,
    replicas: &[Cfg],
    plan: &[Step],
    v: &Violation,
    original_len: usize,
    note: &str,
    prelude: Option<Prelude>,
) -> String {
    let dir = verif_dir().join("replays");
    let _ = std::fs::create_dir_all(&dir);
    let path = file.map_or_else(|| dir.join(format!("{prop}-{seed}-{run}.json")), Path::to_path_buf);
    let r = Replay {
        property: prop.to_string(),
        seed,
        run,
        tier: tier.to_string(),
        cfg: cfg.clone(),
        replicas: replicas.to_vec(),
        plan: plan.to_vec(),
        expect: Expect {
            clause: v.clause.clone(),
            step: v.step,
            message: v.message.clone(),
        },
        original_plan_len: original_len,
        sodg_rev: std::env::var("VERIF_SODG_REV").unwrap_or_default(),
        note: note.to_string(),
        prelude,
    };
    std::fs::write(&path, serde_json::to_string_pretty(&r).unwrap()).unwrap();
    path.to_string_lossy().into_owned()
}

/// Worker: runs `from..to`, writes its summary to `out`.
pub fn worker(prop: &str, tier: &str, seed: u64, from: u64, to: u64, out: &Path, only: Option<Vec<u64>>) {
    let thorough = tier == "thorough";
    let t0 = Instant::now();
    let mut w = WorkerOut {
        from,
        to,
        ..WorkerOut::default()
    };
    // self-watchdog: a run that makes no progress for HANG_SECS is a hang
    let current = Arc::new(AtomicU64::new(u64::MAX));
    let beat = Arc::new(AtomicU64::new(0));
    {
        let (current, beat) = (current.clone(), beat.clone());
        let progress = out.with_extension("progress");
        std::thread::spawn(move || {
            let mut last = (u64::MAX, 0_u64);
            let mut since = Instant::now();
            let mut cpu_since = own_cpu_secs();
            loop {
                std::thread::sleep(Duration::from_millis(500));
                let now = (current.load(Ordering::Relaxed), beat.load(Ordering::Relaxed) + crate::run::HEARTBEAT.load(Ordering::Relaxed));
                let _ = std::fs::write(&progress, format!("{}", now.0));
                // a hang is a call that burns HANG_SECS of CPU time without ending (wall-clock time
                // says nothing on an oversubscribed or paused machine; it only bounds a call that
                // neither ends nor computes)
                if now != last {
                    last = now;
                    since = Instant::now();
                    cpu_since = own_cpu_secs();
                } else if now.0 != u64::MAX
                    && (own_cpu_secs() - cpu_since > HANG_SECS as f64 || since.elapsed() > Duration::from_secs(HANG_SECS * 15))
                {
                    println!("HANG run={}", now.0);
                    let _ = std::io::stdout().flush();
                    std::process::exit(3);
                }
            }
        });
    }
    let list: Vec<u64> = only.unwrap_or_else(|| (from..to).collect());
    for run in list {
        if std::env::var("VERIF_SELFTEST_UNINIT").is_ok() && run % 16 == 3 {
            // harness self-test only: a branch on uninitialised memory, which memcheck must report
            unsafe {
                let p = libc::malloc(8).cast::<u8>();
                if std::ptr::read_volatile(p) == 7 {
                    println!("seven");
                }
                libc::free(p.cast());
            }
        }
        current.store(run, Ordering::Relaxed);
        beat.fetch_add(1, Ordering::Relaxed);
        let t_run = Instant::now();
        let g = generate_and_run(prop, seed, run, thorough);
        w.stats.max("max.run_wall_ms", t_run.elapsed().as_millis() as u64);
        w.runs += 1;
        w.steps += g.out.steps_done as u64;
        if g.fault_free {
            w.fault_free_runs += 1;
            w.fault_free_steps += g.out.steps_done as u64;
        } else {
            w.faulty_runs += 1;
            w.faulty_steps += g.out.steps_done as u64;
        }
        let ph = plan_hash(&g.cfg, &g.out.plan);
        w.plans.insert(ph);
        if nontrivial(prop, &g.out.stats) {
            w.nontrivial.insert(ph);
            if w.samples.len() < 2 {
                w.samples.push(sample_json(&g.cfg, &g.out.plan));
            }
        }
        if run % 97 == 0 {
            w.traces.insert(run, g.out.trace);
        }
        w.stats.merge(&g.out.stats);
        if let Some(f) = g.verdict.foreign {
            *w.foreign.entry(f).or_insert(0) += 1;
        }
        if let Some(v) = g.verdict.violation {
            w.violation_count += 1;
            if w.violations.len() < 3 {
                let (mut mcfg, mut mplan, mut mv, mut tries) = minimise(prop, &g.cfg, &g.replicas, &g.out.plan, &v, 2_000);
                let mut path = write_replay(
                    prop,
                    seed,
                    run,
                    tier,
                    &mcfg,
                    &g.replicas,
                    &mplan,
                    &mv,
                    g.out.plan.len(),
                    "minimised by delta debugging; verified to reproduce in a fresh process",
                );
                // a replay must be a pure function of the file and the code: confirm it in a fresh process
                if !reproduces_in_child(Path::new(&path)) {
                    w.stats.bump("replay.minimised_plan_needed_process_state");
                    let full = write_replay(prop, seed, run, tier, &g.cfg, &g.replicas, &g.out.plan, &v, g.out.plan.len(), "unminimised plan");
                    if reproduces_in_child(Path::new(&full)) {
                        // the code under test keeps state between graphs: minimise with one fresh
                        // process per candidate, so that no candidate inherits an earlier one's state
                        let scratch = scratch_dir().join(format!("cand-{}-{run}.json", std::process::id()));
                        let mut child_judge = |c: &Cfg, cand: &[Step]| -> Option<Violation> {
                            write_replay_to(Some(&scratch), prop, seed, run, tier, c, &g.replicas, cand, &v, g.out.plan.len(), "candidate", None);
                            reproduces_in_child(&scratch).then(|| v.clone())
                        };
                        let r = minimise_with(&g.cfg, &g.out.plan, &v, 250, &mut child_judge);
                        let _ = std::fs::remove_file(&scratch);
                        (mcfg, mplan, _, tries) = r;
                        mv = Violation { clause: v.clause.clone(), step: mplan.len().saturating_sub(1), message: v.message.clone() };
                        path = write_replay(prop, seed, run, tier, &mcfg, &g.replicas, &mplan, &mv, g.out.plan.len(), "minimised with one fresh process per candidate (the code under test keeps state between graphs)");
                    } else {
                        // not even the whole plan fails alone: it needs the state earlier runs of this
                        // worker left in the process; the replay re-executes them first
                        mcfg = g.cfg.clone();
                        mplan = g.out.plan.clone();
                        mv = v.clone();
                        path = write_replay_to(
                            None, prop, seed, run, tier, &mcfg, &g.replicas, &mplan, &mv, g.out.plan.len(),
                            "depends on state left in the process by earlier runs of the same worker; replay executes the prelude runs first",
                            Some(Prelude { property: prop.to_string(), seed, thorough, from, to: run }),
                        );
                        if !reproduces_in_child(Path::new(&path)) {
                            w.stats.bump("replay.not_reproducible_in_fresh_process");
                        }
                    }
                }
                w.violations.push(ViolationRec {
                    run,
                    clause: mv.clause.clone(),
                    step: mv.step,
                    message: mv.message.clone(),
                    replay: path,
                    plan_len: mplan.len(),
                    original_plan_len: g.out.plan.len(),
                    minimiser_executions: tries,
                });
            }
        }
    }
    current.store(u64::MAX, Ordering::Relaxed);
    w.wall_s = t0.elapsed().as_secs_f64();
    std::fs::write(out, serde_json::to_vec(&w).unwrap()).unwrap();
}

#[derive(Debug, Clone)]
struct Known {
    property: String,
    clause: String,
    contains: String,
    text: String,
}

fn known_findings() -> Vec<Known> {
    let mut out = Vec::new();
    let Ok(txt) = std::fs::read_to_string(verif_dir().join("KNOWN_FINDINGS.txt")) else {
        return out;
    };
    for line in txt.lines() {
        let Some(rest) = line.strip_prefix("known:") else { continue };
        let mut k = Known {
            property: String::new(),
            clause: String::new(),
            contains: String::new(),
            text: rest.trim().to_string(),
        };
        for tok in rest.split_whitespace() {
            if let Some(v) = tok.strip_prefix("property=") {
                k.property = v.to_string();
            } else if let Some(v) = tok.strip_prefix("clause=") {
                k.clause = v.to_string();
            } else if let Some(v) = tok.strip_prefix("contains=") {
                k.contains = v.replace('_', " ");
            }
        }
        out.push(k);
    }
    out
}

/// Does `replay <file>` report a violation when run in a fresh process?
fn reproduces_in_child(file: &Path) -> bool {
    let exe = std::env::current_exe().unwrap();
    let child = Command::new(exe).arg("replay").arg(file).stdout(Stdio::null()).stderr(Stdio::null()).spawn();
    match child {
        Ok(c) => {
            let r = matches!(wait_timeout(c, HANG_SECS + 20), Some(s) if s.code() == Some(1));
            crate::run::HEARTBEAT.fetch_add(1, Ordering::Relaxed);
            r
        }
        Err(_) => false,
    }
}

fn scratch_dir() -> PathBuf {
    let d = verif_dir().join("sim").join("scratch");
    let _ = std::fs::create_dir_all(&d);
    d
}

struct Spawned {
    child: std::process::Child,
    out: PathBuf,
    from: u64,
    to: u64,
}

/// `valgrind` (memcheck) in front of the plain build: the second memory observer of C07. It sees
/// what AddressSanitizer cannot: a branch or a system call that depends on uninitialised memory.
pub fn memcheck_cmd() -> Command {
    let mut c = Command::new("valgrind");
    c.arg("-q")
        .arg("--error-exitcode=9")
        .arg("--exit-on-first-error=yes")
        .arg("--undef-value-errors=yes")
        .arg(std::env::current_exe().unwrap());
    c
}

pub fn memcheck_available() -> bool {
    Command::new("valgrind").arg("--version").stdout(Stdio::null()).stderr(Stdio::null()).status().is_ok_and(|s| s.success())
}

fn spawn_worker(prop: &str, tier: &str, seed: u64, from: u64, to: u64, tag: &str, only: Option<&[u64]>) -> Spawned {
    spawn_worker_with(prop, tier, seed, from, to, tag, only, false)
}

#[allow(clippy::too_many_arguments)]
fn spawn_worker_with(prop: &str, tier: &str, seed: u64, from: u64, to: u64, tag: &str, only: Option<&[u64]>, memcheck: bool) -> Spawned {
    let exe = std::env::var("VERIF_WORKER_EXE").map_or_else(|_| std::env::current_exe().unwrap(), PathBuf::from);
    let out = scratch_dir().join(format!("{prop}-{}-{tag}.json", std::process::id()));
    let _ = std::fs::remove_file(&out);
    let mut cmd = if memcheck { memcheck_cmd() } else { Command::new(exe) };
    cmd.arg("worker")
        .arg(prop)
        .arg(tier)
        .arg(seed.to_string())
        .arg(from.to_string())
        .arg(to.to_string())
        .arg(&out);
    if let Some(o) = only {
        cmd.arg(o.iter().map(ToString::to_string).collect::<Vec<_>>().join(","));
    }
    cmd.env("ASAN_OPTIONS", "detect_leaks=0:abort_on_error=1:symbolize=1:allocator_may_return_null=1");
    cmd.stdout(Stdio::piped()).stderr(Stdio::piped());
    Spawned {
        child: cmd.spawn().expect("cannot spawn worker"),
        out,
        from,
        to,
    }
}

/// Wait for a child at most `secs` seconds; a child that does not finish is killed (`None`).
/// CPU time (user + system) a process has used so far, in seconds.
fn proc_cpu_secs(pid: u32) -> Option<f64> {
    let stat = std::fs::read_to_string(format!("/proc/{pid}/stat")).ok()?;
    let rest = &stat[stat.rfind(')')? + 1..];
    let f: Vec<&str> = rest.split_whitespace().collect();
    // after the command name: state is field 0, utime field 11, stime field 12
    let ticks = f.get(11)?.parse::<f64>().ok()? + f.get(12)?.parse::<f64>().ok()?;
    let hz = unsafe { libc::sysconf(libc::_SC_CLK_TCK) };
    Some(ticks / if hz > 0 { hz as f64 } else { 100.0 })
}

/// CPU time of this process, in seconds.
pub fn own_cpu_secs() -> f64 {
    let mut ts = libc::timespec { tv_sec: 0, tv_nsec: 0 };
    unsafe { libc::clock_gettime(libc::CLOCK_PROCESS_CPUTIME_ID, &mut ts) };
    ts.tv_sec as f64 + ts.tv_nsec as f64 * 1e-9
}

/// Wait for a child that executes one run. The limit is on the CPU time the child uses, not
/// on the wall clock: a machine that is oversubscribed, or a virtual machine that was paused,
/// must not turn a slow run into a "hang". (A child that neither finishes nor uses CPU is
/// given fifteen times the limit on the wall clock.)
fn wait_timeout(mut child: std::process::Child, secs: u64) -> Option<std::process::ExitStatus> {
    let t0 = Instant::now();
    let pid = child.id();
    loop {
        match child.try_wait() {
            Ok(Some(st)) => return Some(st),
            Ok(None) => {
                let cpu = proc_cpu_secs(pid).unwrap_or(0.0);
                if cpu > secs as f64 || t0.elapsed() > Duration::from_secs(secs * 15) {
                    let _ = child.kill();
                    let _ = child.wait();
                    return None;
                }
                std::thread::sleep(Duration::from_millis(50));
            }
            Err(_) => return None,
        }
    }
}

pub const HANG_SECS: u64 = 45;

/// Collect one worker: its summary, or what is known about its death.
fn harvest(
    sp: Spawned,
    total: &mut WorkerOut,
    all_violations: &mut Vec<ViolationRec>,
    crashed: &mut Vec<(u64, String, String)>,
    harness_error: &mut bool,
    memcheck: bool,
) {
        let progress = sp.out.with_extension("progress");
        let o = sp.child.wait_with_output().expect("worker wait");
        let stdout = String::from_utf8_lossy(&o.stdout).to_string();
        let stderr = String::from_utf8_lossy(&o.stderr).to_string();
        if o.status.success() {
            match std::fs::read(&sp.out).ok().and_then(|b| serde_json::from_slice::<WorkerOut>(&b).ok()) {
                Some(w) => {
                    total.runs += w.runs;
                    total.steps += w.steps;
                    total.fault_free_runs += w.fault_free_runs;
                    total.fault_free_steps += w.fault_free_steps;
                    total.faulty_runs += w.faulty_runs;
                    total.faulty_steps += w.faulty_steps;
                    total.stats.merge(&w.stats);
                    total.nontrivial.extend(w.nontrivial);
                    total.plans.extend(w.plans);
                    total.violation_count += w.violation_count;
                    for (k, v) in w.foreign {
                        *total.foreign.entry(k).or_insert(0) += v;
                    }
                    if total.samples.len() < 3 {
                        total.samples.extend(w.samples.into_iter().take(1));
                    }
                    total.traces.extend(w.traces);
                    all_violations.extend(w.violations);
                }
                None => {
                    eprintln!("harness error: worker {}..{} left no summary", sp.from, sp.to);
                    *harness_error = true;
                }
            }
        } else {
            // the worker process died: an abort (sanitizer report, stack overflow, double panic) or a hang
            let run = stdout
                .lines()
                .find_map(|l| l.strip_prefix("HANG run=").and_then(|r| r.parse::<u64>().ok()))
                .or_else(|| std::fs::read_to_string(&progress).ok().and_then(|s| s.trim().parse().ok()));
            let class = if stdout.contains("HANG run=") {
                "hang"
            } else if memcheck && o.status.code() == Some(9) {
                "memcheck"
            } else {
                "abort"
            };
            let tail: String = stderr.lines().rev().take(30).collect::<Vec<_>>().into_iter().rev().collect::<Vec<_>>().join("\n");
            crashed.push((run.unwrap_or(sp.from), class.to_string(), format!("worker {}..{} exit {:?}\n{tail}", sp.from, sp.to, o.status)));
        }
        let _ = std::fs::remove_file(&sp.out);
        let _ = std::fs::remove_file(&progress);
}

pub struct BatchResult {
    pub exit: i32,
}

/// The parent of one check.
pub fn check(prop: &str, tier: &str) -> BatchResult {
    let t0 = Instant::now();
    let seed: u64 = std::env::var("VERIF_SEED")
        .ok()
        .and_then(|s| s.parse().ok())
        .unwrap_or(DEFAULT_SEED);
    let tier = std::env::var("VERIF_TIER")
        .ok()
        .filter(|t| t == "quick" || t == "thorough")
        .unwrap_or_else(|| tier.to_string());
    let thorough = tier == "thorough";
    let workers: u64 = std::env::var("VERIF_WORKERS")
        .ok()
        .and_then(|s| s.parse().ok())
        .unwrap_or(16);
    let runs = runs_for(prop, thorough);
    println!("VERIF_SEED={seed} property={prop} tier={tier} runs={runs} workers={workers}");
    let mut violations_printed = 0;
    let mut known_printed: Vec<String> = Vec::new();
    let known = known_findings();
    let mut harness_error = false;

    // 1. pinned regressions of repaired defects: a fixed entry suppresses nothing
    let mut regressions_replayed = 0;
    let reg_dir = verif_dir().join("sim").join("regressions");
    let mut reg_files: Vec<PathBuf> = std::fs::read_dir(&reg_dir)
        .map(|d| d.filter_map(|e| e.ok().map(|e| e.path())).collect())
        .unwrap_or_default();
    reg_files.sort();
    for f in reg_files {
        if f.extension().and_then(|e| e.to_str()) != Some("json") {
            continue;
        }
        let Ok(txt) = std::fs::read_to_string(&f) else { continue };
        let Ok(r) = serde_json::from_str::<Replay>(&txt) else {
            eprintln!("harness error: unreadable regression {}", f.display());
            harness_error = true;
            continue;
        };
        if r.property != prop {
            continue;
        }
        regressions_replayed += 1;
        let (vd, _) = judge_plan(prop, &r.cfg, &r.replicas, &r.plan);
        if let Some(v) = vd.violation {
            println!(
                "regression {} fails again: {} at step {}: {}",
                f.display(),
                v.clause,
                v.step,
                v.message
            );
            println!("VIOLATION property={prop} replay={}", f.display());
            violations_printed += 1;
        }
    }

    // 2. the batch
    let per = runs.div_ceil(workers.max(1));
    let mut spawned = Vec::new();
    for k in 0..workers {
        let from = k * per;
        let to = ((k + 1) * per).min(runs);
        if from >= to {
            break;
        }
        spawned.push(spawn_worker(prop, &tier, seed, from, to, &format!("w{k}"), None));
    }
    let mut total = WorkerOut::default();
    let mut all_violations: Vec<ViolationRec> = Vec::new();
    let mut crashed: Vec<(u64, String, String)> = Vec::new();
    for sp in spawned {
        harvest(sp, &mut total, &mut all_violations, &mut crashed, &mut harness_error, false);
    }
    // C07 only: a second, smaller batch of other runs under valgrind's memcheck (plain build)
    let mut memcheck_runs = 0_u64;
    if prop == "C07" && memcheck_available() {
        let n: u64 = std::env::var("VERIF_MEMCHECK_RUNS").ok().and_then(|s| s.parse().ok()).unwrap_or(if thorough { 9_600 } else { 320 });
        let per_m = n.div_ceil(workers.max(1));
        let base = 10_000_000_u64;
        let mut sp_m = Vec::new();
        for k in 0..workers {
            let from = base + k * per_m;
            let to = (base + (k + 1) * per_m).min(base + n);
            if from >= to {
                break;
            }
            sp_m.push(spawn_worker_with(prop, &tier, seed, from, to, &format!("m{k}"), None, true));
        }
        let before = total.runs;
        for sp in sp_m {
            harvest(sp, &mut total, &mut all_violations, &mut crashed, &mut harness_error, true);
        }
        memcheck_runs = total.runs - before;
        total.stats.add("memcheck.runs", memcheck_runs);
    }
    let _ = memcheck_runs;

    // 3. a dead worker: locate the run by executing candidates one per process
    for (hint, class, detail) in &crashed {
        let found = locate_fatal_run(prop, &tier, seed, *hint, per, class == "memcheck");
        match found {
            Some((run, plan_cfg)) => {
                let v = Violation {
                    clause: format!("process.{class}"),
                    step: plan_cfg.1.len().saturating_sub(1),
                    message: format!("the process executing run {run} died ({class}); {}", detail.lines().take(12).collect::<Vec<_>>().join(" | ")),
                };
                let path = write_replay(prop, seed, run, &tier, &plan_cfg.0, &[], &plan_cfg.1, &v, plan_cfg.1.len(), "journal of the run whose process died; replay executes it in a child process");
                println!("{class} in run {run}: {}", detail.lines().next().unwrap_or(""));
                println!("VIOLATION property={prop} replay={path}");
                violations_printed += 1;
                total.violation_count += 1;
            }
            None => {
                eprintln!("harness error: a worker died ({class}) but no single run reproduces it:\n{detail}");
                harness_error = true;
            }
        }
    }

    // 4. violations found by the workers
    all_violations.sort_by_key(|v| v.run);
    for v in &all_violations {
        let k = known.iter().find(|k| {
            k.property == prop && k.clause == v.clause && (k.contains.is_empty() || v.message.contains(&k.contains))
        });
        if let Some(k) = k {
            let line = format!("KNOWN-FINDING: property={prop} {}", k.text);
            if !known_printed.contains(&line) {
                println!("{line}");
                known_printed.push(line);
            }
            continue;
        }
        println!(
            "run {} violates {} at step {} ({} steps after minimisation from {}): {}",
            v.run, v.clause, v.step, v.plan_len, v.original_plan_len, v.message
        );
        println!("VIOLATION property={prop} replay={}", v.replay);
        violations_printed += 1;
    }
    if total.violation_count > all_violations.len() as u64 {
        println!(
            "({} further violating runs were counted but not minimised)",
            total.violation_count - all_violations.len() as u64
        );
    }

    // 5. determinism re-check of a sample in a second process
    let sample: Vec<u64> = total.traces.keys().copied().take(200).collect();
    let mut recheck_runs = 0;
    let mut recheck_mismatch = 0;
    if !sample.is_empty() && crashed.is_empty() {
        let sp = spawn_worker(prop, &tier, seed, 0, 0, "recheck", Some(&sample));
        let o = sp.child.wait_with_output().expect("recheck wait");
        if o.status.success() {
            if let Some(w) = std::fs::read(&sp.out).ok().and_then(|b| serde_json::from_slice::<WorkerOut>(&b).ok()) {
                for (run, tr) in &w.traces {
                    recheck_runs += 1;
                    if total.traces.get(run) != Some(tr) {
                        recheck_mismatch += 1;
                        if prop == "C19" && recheck_mismatch == 1 {
                            let g = generate_and_run(prop, seed, *run, thorough);
                            let v = Violation {
                                clause: "replica.process.trace-differs".to_string(),
                                step: 0,
                                message: format!("run {run} gives different event logs in two processes (class=uncontrolled)"),
                            };
                            let path = write_replay(prop, seed, *run, &tier, &g.cfg, &g.replicas, &g.out.plan, &v, g.out.plan.len(), "uncontrolled nondeterminism: two processes disagree");
                            println!("VIOLATION property={prop} replay={path}");
                            violations_printed += 1;
                        }
                    }
                }
            }
        }
        let _ = std::fs::remove_file(&sp.out);
        let _ = std::fs::remove_file(sp.out.with_extension("progress"));
        if recheck_mismatch > 0 && prop != "C19" {
            eprintln!("warning: {recheck_mismatch} of {recheck_runs} re-executed runs gave a different event log in a second process");
        }
    }

    // 6. evidence
    let wall = t0.elapsed().as_secs_f64();
    write_evidence(
        prop,
        &tier,
        seed,
        &total,
        wall,
        violations_printed,
        &known_printed,
        regressions_replayed,
        recheck_runs,
        recheck_mismatch,
        workers,
    );
    println!(
        "{} runs, {} steps, {} distinct non-trivial plans, {} violations, {:.1}s",
        total.runs,
        total.steps,
        total.nontrivial.len(),
        violations_printed,
        wall
    );
    let exit = if violations_printed > 0 {
        1
    } else if harness_error || total.runs == 0 {
        2
    } else {
        0
    };
    BatchResult { exit }
}

/// Find the run that kills its process: try the hinted run first, then its neighbours,
/// each in its own journalling child process. Returns the run and its journal.
fn locate_fatal_run(prop: &str, tier: &str, seed: u64, hint: u64, span: u64, memcheck: bool) -> Option<(u64, (Cfg, Vec<Step>))> {
    let exe = std::env::var("VERIF_WORKER_EXE").map_or_else(|_| std::env::current_exe().unwrap(), PathBuf::from);
    let lo = hint.saturating_sub(2);
    let cands: Vec<u64> = std::iter::once(hint).chain(lo..hint).chain(hint + 1..hint + span.min(64)).collect();
    for run in cands {
        let journal = scratch_dir().join(format!("{prop}-{}-journal-{run}.jsonl", std::process::id()));
        let _ = std::fs::remove_file(&journal);
        let mut jc = if memcheck { memcheck_cmd() } else { Command::new(&exe) };
        let child = jc
            .arg("journal")
            .arg(prop)
            .arg(tier)
            .arg(seed.to_string())
            .arg(run.to_string())
            .arg(&journal)
            .env("ASAN_OPTIONS", "detect_leaks=0:abort_on_error=1:allocator_may_return_null=1")
            .stdout(Stdio::null())
            .stderr(Stdio::null())
            .spawn()
            .ok()?;
        // None = did not finish in time: a hang
        let st = wait_timeout(child, HANG_SECS + 10);
        let txt = std::fs::read_to_string(&journal).unwrap_or_default();
        let _ = std::fs::remove_file(&journal);
        if !st.is_some_and(|s| s.success()) {
            let mut lines = txt.lines();
            let cfg: Cfg = serde_json::from_str(lines.next()?).ok()?;
            let plan: Vec<Step> = lines.filter_map(|l| serde_json::from_str(l).ok()).collect();
            return Some((run, (cfg, plan)));
        }
    }
    None
}

#[allow(clippy::too_many_arguments)]
fn write_evidence(
    prop: &str,
    tier: &str,
    seed: u64,
    t: &WorkerOut,
    wall: f64,
    violations: usize,
    known_printed: &[String],
    regressions: usize,
    recheck_runs: u64,
    recheck_mismatch: u64,
    workers: u64,
) {
    let level = if prop == "C09" { "fault_enumeration" } else { "exploration" };
    let mut faults: BTreeMap<String, u64> = BTreeMap::new();
    let mut probes: BTreeMap<String, u64> = BTreeMap::new();
    let mut steps: BTreeMap<String, u64> = BTreeMap::new();
    let mut other: BTreeMap<String, u64> = BTreeMap::new();
    for (k, v) in &t.stats.counters {
        if let Some(r) = k.strip_prefix("fault.") {
            faults.insert(r.to_string(), *v);
        } else if let Some(r) = k.strip_prefix("probe.") {
            probes.insert(r.to_string(), *v);
        } else if let Some(r) = k.strip_prefix("steps.") {
            steps.insert(r.to_string(), *v);
        } else {
            other.insert(k.clone(), *v);
        }
    }
    let per_hour = |n: u64| if wall > 0.0 { (n as f64 / wall * 3600.0) as u64 } else { 0 };
    let coverage = serde_json::json!({
        "evaluations": t.runs,
        "distinct_nontrivial": t.nontrivial.len(),
        "rule": format!("plans are generated online by a seeded swarm generator walking the reference model (run i of seed S uses SplitMix64(mix(S, property, i)) -> xoshiro256**); {}", nontrivial_rule(prop)),
        "samples": t.samples,
        "exhaustive": false,
        "exhaustive_per_image": prop == "C09",
        "steps_total": t.steps,
        "distinct_plans": t.plans.len(),
        "runs_per_hour": per_hour(t.runs),
        "seeds_per_hour": per_hour(t.runs),
        "steps_per_hour": per_hour(t.steps),
        "simulated_time": "not applicable: sodg has no clock, timer or deadline; progress is counted in steps",
        "configurations": {
            "fault_free": {"runs": t.fault_free_runs, "steps": t.fault_free_steps},
            "fault_injecting": {"runs": t.faulty_runs, "steps": t.faulty_steps},
        },
        "faults_fired": faults,
        "probes": probes,
        "steps_by_kind": steps,
        "counters": other,
        "stopped_by_foreign_divergence": t.foreign,
        "distinct_states_estimate": t.stats.state_sample.len() as u64 * STATE_SAMPLE,
        "distinct_states_measure": format!("distinct hashes of the hook snapshot (present slots, tags, read status, data, ordered edges, member-list sizes), estimated from the 1/{STATE_SAMPLE} hash-sample that is kept"),
        "distinct_op_trigrams": t.stats.trigrams.len(),
        "distinct_instance_interleavings": t.stats.interleavings.len(),
        "distinct_instance_interleavings_measure": "distinct hashes of the sequence of graph instances the steps of a run were issued to while at least two graphs were live",
        "determinism_recheck": {"runs": recheck_runs, "mismatches": recheck_mismatch, "how": "a sample of runs (index % 97 == 0) re-executed in a second process; event-log hashes compared"},
        "regressions_replayed": regressions,
        "known_findings_printed": known_printed,
        "violating_runs": t.violation_count,
        "workers": workers,
        "components": {
            "real": ["sodg (all modules, built from /repo's working tree with --features verif, opt-level 2, debug assertions and overflow checks on)", "emap 0.0.13", "micromap 0.0.19", "microstack 0.0.7", "bincode 1.3.3", "serde"],
            "stub": ["std::fs read/write/File/rename/remove_file as seen by serialization.rs -> SimDisk (in-memory, fault plan per call; its content is mirrored into a private directory on a RAM disk so that unshadowed std::fs items see the same files, and what bypasses the seam is folded back)", "BuildHasher of HashMap/HashSet inside sodg -> seeded SimState"],
            "uncontrolled": ["emap's private std HashMap inside Deserialize (insertion order only)", "Instant::now() in save/load trace! arguments", "log macros (a null logger; the level is a configuration axis of C19)", "mtime/inode numbers of the mirror directory"],
        },
    });
    let ev = serde_json::json!({
        "property_id": prop,
        "tier": tier,
        "seed": seed,
        "level": level,
        "coverage": coverage,
        "assumptions": [
            "disk model: std::fs::write = open(O_CREAT|O_TRUNC) + write_all + close without fsync; tearing is prefix-only",
            "only in-contract steps are judged; the contract is decided by the reference model before the call",
            "ids chosen by next_id()/merge() are adopted by the model, never predicted",
            "groups left by merge() are judged against the model applying the additions top-down",
            "a clean batch is evidence from seeded sampling, not a proof",
        ],
        "wall_s": wall,
        "violations": violations,
    });
    let dir = std::env::var("VERIF_EVIDENCE_DIR").map_or_else(|_| verif_dir().join("evidence"), PathBuf::from);
    let _ = std::fs::create_dir_all(&dir);
    std::fs::write(dir.join(format!("{prop}.json")), serde_json::to_string_pretty(&ev).unwrap()).unwrap();
}

/// `replay <file>`: execute the plan in this fresh process; it must fail the same way.
pub fn replay_file(path: &Path) -> i32 {
    let Ok(txt) = std::fs::read_to_string(path) else {
        eprintln!("harness error: cannot read {}", path.display());
        return 2;
    };
    let r: Replay = match serde_json::from_str(&txt) {
        Ok(r) => r,
        Err(e) => {
            eprintln!("harness error: cannot parse {}: {e}", path.display());
            return 2;
        }
    };
    println!("VERIF_SEED={} property={} run={} plan_len={}", r.seed, r.property, r.run, r.plan.len());
    if r.expect.clause.starts_with("process.") {
        // the plan kills its process: run it in a child
        let exe = std::env::var("VERIF_WORKER_EXE").map_or_else(|_| std::env::current_exe().unwrap(), PathBuf::from);
        // Two ways, tried in this order: (1) the recorded plan executed from the file; (2) the run
        // regenerated from (property, tier, seed, run) exactly as the batch executed it — heap
        // corruption that the allocator only notices for one particular allocation history (a
        // double free under the plain build) needs the second.
        let journal = scratch_dir().join(format!("replay-journal-{}.jsonl", std::process::id()));
        for attempt in 0..2 {
            let mut ec = if r.expect.clause == "process.memcheck" { memcheck_cmd() } else { Command::new(&exe) };
            if attempt == 0 {
                ec.arg("exec-plan").arg(path);
            } else {
                ec.arg("journal").arg(&r.property).arg(&r.tier).arg(r.seed.to_string()).arg(r.run.to_string()).arg(&journal);
            }
            let child = ec
                .env("ASAN_OPTIONS", "detect_leaks=0:abort_on_error=1:allocator_may_return_null=1")
                .spawn();
            let Ok(child) = child else {
                eprintln!("harness error: cannot start the child process");
                return 2;
            };
            let how = if attempt == 0 { "the recorded plan" } else { "the run regenerated from its seed" };
            let st = wait_timeout(child, HANG_SECS + 10);
            let _ = std::fs::remove_file(&journal);
            match st {
                Some(s) if s.success() => {}
                Some(s) => {
                    println!("reproduced with {how}: the child process died ({s:?})");
                    println!("VIOLATION property={} replay={}", r.property, path.display());
                    return 1;
                }
                None => {
                    println!("reproduced with {how}: the child process did not finish within {} s of CPU time (hang)", HANG_SECS + 10);
                    println!("VIOLATION property={} replay={}", r.property, path.display());
                    return 1;
                }
            }
        }
        println!("the plan passes on this tree (expected {})", r.expect.clause);
        return 0;
    }
    if let Some(p) = &r.prelude {
        println!("executing the prelude: runs {}..{} of seed {} first", p.from, p.to, p.seed);
        for run in p.from..p.to {
            let _ = generate_and_run(&p.property, p.seed, run, p.thorough);
        }
    }
    let (vd, _) = judge_plan(&r.property, &r.cfg, &r.replicas, &r.plan);
    match vd.violation {
        Some(v) if v.clause == r.expect.clause && v.step == r.expect.step && v.message == r.expect.message => {
            println!("reproduced exactly: {} at step {}: {}", v.clause, v.step, v.message);
            println!("VIOLATION property={} replay={}", r.property, path.display());
            1
        }
        Some(v) if v.clause == r.expect.clause => {
            println!("reproduced the clause {} (at step {}, message differs): {}", v.clause, v.step, v.message);
            println!("VIOLATION property={} replay={}", r.property, path.display());
            1
        }
        Some(v) => {
            println!("a different clause fails: {} at step {}: {}", v.clause, v.step, v.message);
            println!("VIOLATION property={} replay={}", r.property, path.display());
            1
        }
        None => {
            println!("the plan passes on this tree (expected {} at step {})", r.expect.clause, r.expect.step);
            0
        }
    }
}
