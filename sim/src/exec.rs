//! The executor: applies plan steps to the real code and to the oracles.
//! It draws no random number. Every clause it can raise is listed in
//! `clauses` with the properties that own it.

use crate::disk::SimDisk;
use crate::model::RefGraph;
use crate::obs::{guarded, observe, observe_keys, Caught, Obs};
use crate::plan::{Cfg, Id, PLabel, Step};
use crate::rng::H64;
use crate::stats::Stats;
use crate::view::{InstView, LinkKind, LogOp, Origin, View};
use sodg::{Hex, Sodg};
use std::cell::RefCell;
use std::collections::BTreeSet;
use std::rc::Rc;

pub mod clauses {
    pub type Owners = &'static [&'static str];
    pub const C01: Owners = &["C01"];
    pub const ALIVE: Owners = &["C02", "C06"];
    pub const C03: Owners = &["C03"];
    pub const C04: Owners = &["C04"];
    pub const C05: Owners = &["C05"];
    pub const C06: Owners = &["C06"];
    pub const C07: Owners = &["C07"];
    pub const C08: Owners = &["C08"];
    pub const C09: Owners = &["C09"];
    pub const C10: Owners = &["C10"];
    pub const C11: Owners = &["C11"];
    pub const C13: Owners = &["C13"];
    pub const C13_19: Owners = &["C13", "C19"];
    pub const C19: Owners = &["C19"];
    pub const PANIC_GC: Owners = &["C02", "C06", "C07"];
    pub const PANIC_ADD: Owners = &["C02", "C04", "C06", "C07"];
    pub const PANIC_Q: Owners = &["C03", "C07"];
    pub const PANIC_NEXT: Owners = &["C05", "C07"];
    pub const PANIC_CLONE: Owners = &["C10", "C07"];
    pub const PANIC_IO: Owners = &["C08", "C07"];
    pub const PANIC_MERGE: Owners = &["C11", "C07"];
    pub const PANIC_SLICE: Owners = &["C13", "C07"];
}
use clauses::Owners;

#[derive(Clone, Debug)]
pub struct Failure {
    pub clause: &'static str,
    pub owners: Vec<&'static str>,
    pub step: usize,
    pub message: String,
}

#[derive(Clone, Copy, Debug, PartialEq, Eq)]
pub enum Applied {
    Done,
    Skipped,
}

#[derive(Clone, Debug)]
pub enum Op {
    Add(usize),
    Bind(usize, usize, PLabel),
    Put(usize, Vec<u8>),
    /// put() of the bytes in a non-canonical Hex representation (see Step::PutRaw)
    PutRaw(usize, Vec<u8>, u8),
    Data(usize),
    NextId,
}

#[derive(Clone, Debug, PartialEq, Eq)]
pub enum OpRet {
    Unit,
    /// value, vertices removed by the call, encoding of the answer (0 none, 1 inline, 2 heap)
    Data(Option<Vec<u8>>, Vec<usize>, u8),
    Id(usize),
}

pub struct Exec<const N: usize> {
    pub view: View,
    pub gs: Vec<Option<Sodg<N>>>,
    pub disk: Rc<RefCell<SimDisk>>,
    pub stats: Stats,
    pub trace: H64,
    /// observations recorded for replica comparison (C19), when enabled
    pub record: Option<Vec<String>>,
    pub(crate) recent: [u64; 2],
    /// running hash of which instance each step was issued to, while several graphs are live
    pub(crate) interleaving: H64,
}

pub fn fail<T>(clause: &'static str, owners: Owners, message: String) -> Result<T, Failure> {
    Err(Failure {
        clause,
        owners: owners.to_vec(),
        step: 0,
        message,
    })
}

impl<const N: usize> Exec<N> {
    pub fn new(cfg: Cfg) -> Self {
        let disk = Rc::new(RefCell::new(SimDisk::new(
            cfg.write_chunk,
            cfg.read_chunk,
            cfg.eintr_every,
        )));
        disk.borrow_mut().enable_mirror();
        sodg::verif::fs::install(Some(disk.clone()));
        sodg::verif::collections::set_hash_seed(cfg.hash_seed ^ cfg.hash_xor);
        log::set_max_level(match cfg.log_level {
            0 => log::LevelFilter::Off,
            1 => log::LevelFilter::Error,
            2 => log::LevelFilter::Warn,
            3 => log::LevelFilter::Info,
            4 => log::LevelFilter::Debug,
            _ => log::LevelFilter::Trace,
        });
        let view = View::new(cfg);
        let n = view.insts.len();
        Self {
            view,
            gs: (0..n).map(|_| None).collect(),
            disk,
            stats: Stats::default(),
            trace: H64::default(),
            record: None,
            recent: [0; 2],
            interleaving: H64::default(),
        }
    }

    /// An executor for counterfactual replays: it does not touch the thread's disk or hash seed.
    pub fn nested(cfg: Cfg) -> Self {
        let disk = Rc::new(RefCell::new(SimDisk::new(0, 0, 0)));
        let view = View::new(cfg);
        let n = view.insts.len();
        Self {
            view,
            gs: (0..n).map(|_| None).collect(),
            disk,
            stats: Stats::default(),
            trace: H64::default(),
            record: None,
            recent: [0; 2],
            interleaving: H64::default(),
        }
    }

    /// Replay a flattened history (basic operations only) on one fresh graph and report
    /// the first clause that fails there, if any.
    pub(crate) fn flat_replay(&self, log: &[LogOp], failing: &Op, skip_present_adds: bool) -> Option<Failure> {
        let mut ex: Exec<N> = Exec::nested(self.view.cfg.clone());
        ex.view.labels_seen = self.view.labels_seen.clone();
        let cap = self.view.cfg.cap;
        let g = guarded(|| Sodg::<N>::empty(cap)).ok()?;
        let (mc, mn) = (self.view.cfg.contract_cap(), self.view.cfg.contract_n());
        ex.new_inst(0, g, RefGraph::new(mc, mn), Origin::Fresh, 0).ok()?;
        let all = log.iter().map(|l| (&l.op, l.add_present)).chain(std::iter::once((failing, false)));
        for (op, present_add) in all {
            if skip_present_adds && present_add {
                continue;
            }
            let inst = ex.view.insts[0].as_ref().unwrap();
            let m = &inst.m;
            let ok = match op {
                Op::Add(v) => m.can_add(*v),
                Op::Bind(a, b, l) => m.can_bind(*a, *b, l),
                Op::Put(v, _) | Op::PutRaw(v, _, _) => m.can_put(*v),
                Op::Data(v) => m.can_data(*v),
                Op::NextId => {
                    let pos = m.returned.iter().next_back().map_or(0, |x| x + 1).max(inst.next_v);
                    m.has_absent_at_or_above(pos)
                }
            };
            if !ok {
                continue;
            }
            if let Err(f) = ex.run_op(0, op) {
                return Some(f);
            }
        }
        None
    }

    /// Whose fault is a divergence seen on instance `i`? A clause about the basic operations
    /// (C02, C03, C04, C06) is theirs only if the same flattened history also fails on a graph
    /// that never went through load(), clone() or merge(); otherwise it belongs to the crossing.
    pub(crate) fn attribute(&mut self, i: usize, op: &Op, mut f: Failure) -> Failure {
        let Some(inst) = self.view.insts[i].as_ref() else { return f };
        let basic = f.owners.iter().any(|o| matches!(*o, "C02" | "C03" | "C04" | "C06"));
        if !basic {
            return f;
        }
        let crossed = inst.crossed_load || inst.crossed_clone || inst.merged;
        let mut log = inst.oplog.clone();
        // run_op has already logged the failing op when the failure came after the model step
        if matches!(log.last(), Some(l) if format!("{:?}", l.op) == format!("{op:?}")) && f.clause != "panic.in-contract-call" {
            log.pop();
        }
        let readd = inst.readd_seen || log.iter().any(|l| l.add_present);
        let (cl, cc, mg) = (inst.crossed_load && inst.suspect_load, inst.crossed_clone && inst.suspect_clone, inst.merged);
        if crossed {
            self.stats.bump("attribution.flat_replays");
            match self.flat_replay(&log, op, false) {
                Some(f2) => {
                    f.message = format!("{} [also fails without load/clone/merge: {} — {}]", f.message, f2.clause, f2.message);
                    f.clause = f2.clause;
                    f.owners = f2.owners;
                }
                None => {
                    // the restart / copy / merge is part of the history the basic properties quantify
                    // over (DESIGN §3), and it is what C08 / C10 / C11 promise: both own the divergence —
                    // except that a load()/clone() whose result had exactly the internal state of its
                    // source (hook snapshot) cannot be what makes the difference and is not blamed
                    f.message = format!("{} [the same calls on a graph that never went through load/clone/merge do not fail]", f.message);
                    if cl {
                        f.owners.push("C08");
                    }
                    if cc {
                        f.owners.push("C10");
                    }
                    if mg {
                        f.owners.push("C11");
                    }
                    self.stats.bump("attribution.crossing_blamed");
                    return f;
                }
            }
        }
        // C04: "add(v) on a present id changes nothing … nor the moment it will be collected":
        // the divergence is add()'s fault if it vanishes once the adds on present vertices are left out
        if readd && !f.owners.contains(&"C04") && self.flat_replay(&log, op, false).is_some() && self.flat_replay(&log, op, true).is_none() {
            self.stats.bump("attribution.add_on_present_blamed");
            f.owners.push("C04");
        }
        f
    }

    pub fn finish(&mut self) {
        let il = self.interleaving.finish();
        self.stats.interleavings.insert(il);
        // drop every graph (their Drop is part of what the memory observer watches)
        for g in &mut self.gs {
            *g = None;
        }
        sodg::verif::fs::install(None);
    }

    pub fn rec(&mut self, s: impl FnOnce() -> String) {
        if let Some(r) = &mut self.record {
            r.push(s());
        }
    }

    pub(crate) fn new_inst(
        &mut self,
        slot: usize,
        g: Sodg<N>,
        m: RefGraph,
        origin: Origin,
        family: u32,
    ) -> Result<(), Failure> {
        let probes = self.view.probe_labels();
        let obs = match observe(&g, &probes, false) {
            Ok(o) => o,
            Err(c) => return fail("query.panic", clauses::PANIC_Q, format!("{c:?}")),
        };
        let snap = guarded(|| g.verif_snapshot()).ok();
        self.gs[slot] = Some(g);
        self.view.insts[slot] = Some(InstView {
            m,
            poisoned: false,
            leader: None,
            next_v: snap.as_ref().map_or(0, |s| s.next_v),
            latent: false,
            family,
            version: 0,
            origin,
            last_obs: obs,
            age: 0,
            readd_seen: false,
            merged: false,
            crossed_load: false,
            crossed_clone: false,
            suspect_load: false,
            suspect_clone: false,
            oplog: Vec::new(),
        });
        Ok(())
    }

    pub(crate) fn drop_inst(&mut self, i: usize) {
        self.gs[i] = None;
        self.view.insts[i] = None;
        for x in self.view.insts.iter_mut().flatten() {
            if matches!(x.leader, Some((l, _)) if l == i) {
                x.leader = None;
            }
        }
    }

    /// Refresh the hook-derived hints of instance `i` (steering and gating only).
    pub(crate) fn refresh_hints(&mut self, i: usize) {
        let Some(g) = &self.gs[i] else { return };
        let Ok(s) = guarded(|| g.verif_snapshot()) else {
            return;
        };
        let mut latent = false;
        for (b, mem) in s.members.iter().enumerate().skip(2) {
            let Some(mem) = mem else { continue };
            let unread = mem
                .iter()
                .filter(|v| matches!(s.slots.get(**v), Some(Some(x)) if x.persistence == 1 && x.branch == b))
                .count();
            if !mem.is_empty() && s.counters.get(b).copied().flatten() != Some(unread) {
                latent = true;
            }
            for v in mem {
                if !matches!(s.slots.get(*v), Some(Some(x)) if x.branch == b) {
                    latent = true;
                }
            }
        }
        let mut h = H64::default();
        for sl in s.slots.iter().flatten() {
            if sl.branch == 0 {
                h.u64(0);
                continue;
            }
            h.usize(sl.branch);
            h.u64(u64::from(sl.persistence));
            h.bytes(&sl.data);
            for (l, t) in &sl.edges {
                h.str(&format!("{l:?}"));
                h.usize(*t);
            }
        }
        for m in s.members.iter().flatten() {
            h.usize(m.len());
        }
        self.stats.state(h.finish());
        let groups = s
            .members
            .iter()
            .skip(2)
            .flatten()
            .filter(|m| !m.is_empty())
            .count() as u64;
        self.stats.max("max.groups_alive_impl", groups);
        if let Some(x) = &mut self.view.insts[i] {
            x.next_v = s.next_v;
            if latent && !x.latent {
                self.stats.bump("probe.latent_inconsistency_seen");
            }
            x.latent = latent;
        }
    }

    // ------------------------------------------------------------------
    // the five basic operations, with all model-based and history-based clauses
    // ------------------------------------------------------------------

    /// Strict form: the first failing clause, observational or not, ends the call.
    pub(crate) fn run_op(&mut self, i: usize, op: &Op) -> Result<OpRet, Failure> {
        let mut soft = None;
        let r = self.run_op_inner(i, op, &mut soft)?;
        match soft {
            Some(f) => Err(f),
            None => Ok(r),
        }
    }

    /// The call with all its clauses. A failing *observational* clause (one that does not stop the
    /// model from following the implementation: stale content after add(), a wrong kid()/kids()/
    /// data() answer, a safety clause of C01) is put into `soft` and the step is completed, so
    /// that a check whose property does not own that clause can go on with the run.
    pub(crate) fn run_op_inner(&mut self, i: usize, op: &Op, soft: &mut Option<Failure>) -> Result<OpRet, Failure> {
        let probes = self.view.probe_labels();
        let poisoned = self.view.insts[i].as_ref().unwrap().poisoned;
        let g = self.gs[i].as_mut().unwrap();
        // 1. the call itself
        let called: Result<OpRet, Caught> = guarded(|| match op {
            Op::Add(v) => {
                g.add(*v);
                OpRet::Unit
            }
            Op::Bind(a, b, l) => {
                g.bind(*a, *b, l.to_label());
                OpRet::Unit
            }
            Op::Put(v, d) => {
                g.put(*v, &Hex::from_vec(d.clone()));
                OpRet::Unit
            }
            Op::PutRaw(v, d, enc) => {
                let h = if *enc == 2 && d.len() <= 8 {
                    let mut a = [0xEE_u8; 8];
                    a[..d.len()].copy_from_slice(d);
                    Hex::Bytes(a, d.len())
                } else {
                    Hex::Vector(d.clone())
                };
                g.put(*v, &h);
                OpRet::Unit
            }
            Op::Data(v) => {
                let h = g.data(*v);
                let enc = match &h {
                    None => 0,
                    Some(Hex::Bytes(..)) => 1,
                    Some(Hex::Vector(_)) => 2,
                };
                OpRet::Data(h.map(|h| h.bytes().to_vec()), vec![], enc)
            }
            Op::NextId => OpRet::Id(g.next_id()),
        });
        if poisoned {
            self.stats.bump(if called.is_ok() {
                "poisoned.call_returned"
            } else {
                "poisoned.call_panicked"
            });
            return Ok(called.unwrap_or(OpRet::Unit));
        }
        let ret = match called {
            Ok(r) => r,
            Err(c) => {
                let owners = match op {
                    Op::Add(_) => clauses::PANIC_ADD,
                    Op::Bind(..) | Op::Put(..) | Op::PutRaw(..) => clauses::PANIC_GC,
                    Op::Data(_) => &["C02", "C03", "C06", "C07"],
                    Op::NextId => clauses::PANIC_NEXT,
                };
                return fail(
                    "panic.in-contract-call",
                    owners,
                    format!("{op:?} on instance {i} panicked: {c:?}"),
                );
            }
        };
        // 2. observe — fully, or (swarm knob `sweep_every`) keys only between every k-th operation
        let k = self.view.cfg.sweep_every;
        let full = k <= 1 || self.view.insts[i].as_ref().unwrap().age % (k as u64) == 0;
        // (not on kept slices: their groups are left open by C13, the model cannot predict their collections)
        if self.view.cfg.blind && !full && !matches!(op, Op::NextId) && !self.view.insts[i].as_ref().unwrap().m.adoptive {
            // blind stretch: not even keys()/len() is asked between the calls (a query may repair
            // or refresh hidden state of the code under test and so hide what a caller who does not
            // look would meet). The model takes the step alone; the next full observation is held
            // against it.
            let mut ret = ret;
            let inst = self.view.insts[i].as_mut().unwrap();
            inst.oplog.push(LogOp {
                op: op.clone(),
                add_present: matches!(op, Op::Add(v) if inst.m.is_present(*v)),
            });
            let m = &mut inst.m;
            match op {
                Op::Add(v) => {
                    if m.is_present(*v) || m.collected_ever.contains(v) {
                        inst.readd_seen = true;
                    }
                    m.add(*v);
                }
                Op::Bind(a, b, l) => m.bind(*a, *b, l),
                Op::Put(v, d) | Op::PutRaw(v, d, _) => m.put(*v, d),
                Op::Data(v) => {
                    let out = m.data(*v);
                    if let OpRet::Data(val, rem, _) = &mut ret {
                        *rem = out.removed.clone();
                        if *val != out.value && soft.is_none() {
                            *soft = fail::<()>(
                                "data.wrong-value",
                                clauses::C03,
                                format!("data(ν{v}) returned {val:?}, last put was {:?}", out.value),
                            )
                            .err();
                        }
                    }
                }
                Op::NextId => unreachable!(),
            }
            let keys = m.keys();
            inst.last_obs = crate::obs::Obs { len: keys.len(), is_empty: keys.is_empty(), keys, verts: Vec::new(), debug: String::new(), deep: false };
            inst.version += 1;
            inst.age += 1;
            self.stats.bump("probe.blind_step");
            return Ok(ret);
        }
        let g = self.gs[i].as_ref().unwrap();
        let obs = match if full { observe(g, &probes, false) } else { observe_keys(g) } {
            Ok(o) => o,
            Err(c) => {
                return fail(
                    "query.panic",
                    clauses::PANIC_Q,
                    format!("sweep after {op:?} panicked: {c:?}"),
                )
            }
        };
        let inst = self.view.insts[i].as_mut().unwrap();
        let before: BTreeSet<usize> = inst.last_obs.keys.iter().copied().collect();
        let after: BTreeSet<usize> = obs.keys.iter().copied().collect();
        let removed: Vec<usize> = before.difference(&after).copied().collect();
        // 3. C01, phrased over the call history (model-free: only history facts are used).
        // A failing clause is held back until the alive set has been compared with the model:
        // the same event usually violates C02's "until then every member stays present" as well.
        let mut c01: Option<Failure> = None;
        if !removed.is_empty() {
            let m = &inst.m;
            let mut raise = |clause: &'static str, msg: String| {
                if c01.is_none() {
                    c01 = fail::<()>(clause, clauses::C01, msg).err();
                }
            };
            match op {
                Op::Data(v) if m.present.get(v).is_some_and(|x| x.unread) => {
                    let vinc = m.present[v].inc;
                    for r in &removed {
                        let Some(mr) = m.present.get(r) else { continue };
                        if !m.linked(vinc, mr.inc) {
                            raise(
                                "removal.not-linked-by-binds",
                                format!("data(ν{v}) removed ν{r}, never linked to ν{v} by any bind"),
                            );
                        }
                        if r != v && mr.unread {
                            raise(
                                "removal.holds-unread-datum",
                                format!("data(ν{v}) removed ν{r} which holds a put-but-unread datum"),
                            );
                        }
                        if !m.was_bound(mr.inc) {
                            raise(
                                "removal.never-bound",
                                format!("data(ν{v}) removed ν{r} which was never an endpoint of a bind"),
                            );
                        }
                    }
                }
                _ => raise(
                    "removal.by-non-reading-call",
                    format!("{op:?} removed {removed:?} (not a first read of a datum)"),
                ),
            }
        }
        // 4. the model takes the step
        let mut ret = ret;
        inst.oplog.push(LogOp {
            op: op.clone(),
            add_present: matches!(op, Op::Add(v) if inst.m.is_present(*v)),
        });
        let m = &mut inst.m;
        match op {
            Op::Add(v) => {
                let was_absent = !m.is_present(*v);
                let recycled = m.collected_ever.contains(v);
                if !was_absent || recycled {
                    inst.readd_seen = true;
                }
                let prev = inst.last_obs.clone();
                m.add(*v);
                if was_absent {
                    self.stats.bump(if recycled {
                        "probe.readd_collected_id"
                    } else {
                        "probe.add_fresh_id"
                    });
                    // C04: blank slate
                    let single;
                    let found = if full {
                        obs.verts.iter().find(|x| x.v == *v)
                    } else if obs.keys.contains(v) {
                        // keys-only step: look at the new vertex alone
                        let g = self.gs[i].as_ref().unwrap();
                        let kids = guarded(|| g.kids(*v).map(|(l, t)| (PLabel::from_label(l), *t)).collect::<Vec<_>>()).unwrap_or_default();
                        single = crate::obs::VObs { v: *v, kids, probes: Vec::new(), vprint: String::new(), inspect: String::new() };
                        Some(&single)
                    } else {
                        None
                    };
                    if let Some(vo) = found {
                        let vp = if vo.vprint.is_empty() {
                            let g = self.gs[i].as_ref().unwrap();
                            guarded(|| g.v_print(*v).unwrap_or_default()).unwrap_or_default()
                        } else {
                            vo.vprint.clone()
                        };
                        if !vo.kids.is_empty() {
                            if soft.is_none() {
                                *soft = fail::<()>(
                                "add.not-blank.edges",
                                &["C04", "C03"],
                                format!("add(ν{v}) on an absent id came back with edges {:?}", vo.kids),
                            ).err();
                            }
                        }
                        if vp.contains('Δ') {
                            if soft.is_none() {
                                *soft = fail::<()>(
                                "add.not-blank.data",
                                &["C04", "C03"],
                                format!("add(ν{v}) on an absent id came back with data: {vp}"),
                            ).err();
                            }
                        }
                    } else {
                        return fail(
                            "add.not-present",
                            clauses::C04,
                            format!("add(ν{v}) did not make ν{v} present; keys={:?}", obs.keys),
                        );
                    }
                } else {
                    self.stats.bump(if m.present[v].group.is_some() {
                        "probe.add_present_grouped"
                    } else {
                        "probe.add_present_ungrouped"
                    });
                    if let Some(d) = prev.diff(&obs) {
                        if soft.is_none() {
                                *soft = fail::<()>(
                            "add.present-changed",
                            clauses::C04,
                            format!("add(ν{v}) on a present vertex changed answers: {d}"),
                        ).err();
                            }
                    }
                }
            }
            Op::Bind(a, b, l) => {
                let (ga, gb) = (m.present[a].group, m.present[b].group);
                let (ua, ub) = (m.present[a].unread, m.present[b].unread);
                match (ga, gb) {
                    (None, None) => self.stats.bump("probe.bind_forms_group"),
                    (Some(_), Some(_)) => self.stats.bump(if ga == gb {
                        "probe.bind_same_group"
                    } else {
                        "probe.bind_two_groups"
                    }),
                    _ => self.stats.bump("probe.bind_joins_group"),
                }
                if (ga.is_none() && ua) || (gb.is_none() && ub) {
                    self.stats.bump("probe.put_before_bind");
                }
                if m.kid(*a, l).is_some() {
                    self.stats.bump("probe.bind_overwrites_label");
                }
                m.bind(*a, *b, l);
                self.stats.max("max.groups_alive", m.groups_alive() as u64);
                self.stats.max("max.group_size", m.group_size(*a) as u64);
            }
            Op::Put(v, d) | Op::PutRaw(v, d, _) => {
                if matches!(op, Op::PutRaw(..)) {
                    self.stats.bump("probe.put_non_canonical_hex");
                }
                if m.present[v].unread {
                    self.stats.bump("probe.overwrite_unread");
                }
                if m.present[v].group.is_none() {
                    self.stats.bump("probe.put_on_ungrouped");
                }
                if d.len() > 8 {
                    self.stats.bump("probe.heap_data_put");
                }
                m.put(*v, d);
            }
            Op::Data(v) => {
                let out = if self.view.cfg.adopt_alive { m.data_adopt(*v, &removed) } else { m.data(*v) };
                if let OpRet::Data(val, rem, _) = &mut ret {
                    *rem = removed.clone();
                    if *val != out.value {
                        let owners: Owners = if out.value.is_none() && inst.m.collected_ever.contains(v) {
                            &["C03", "C04"]
                        } else {
                            clauses::C03
                        };
                        if soft.is_none() {
                                *soft = fail::<()>(
                            "data.wrong-value",
                            owners,
                            format!("data(ν{v}) returned {val:?}, last put was {:?}", out.value),
                        ).err();
                            }
                    }
                }
                if out.first_read {
                    self.stats.bump("probe.first_read");
                } else if out.value.is_some() {
                    self.stats.bump("probe.repeated_read");
                } else {
                    self.stats.bump("probe.empty_read");
                }
                if !out.removed.is_empty() {
                    self.stats.bump("probe.group_died");
                    if out.removed.len() >= 3 {
                        self.stats.bump("probe.group_died_with_ge3");
                    }
                }
            }
            Op::NextId => {
                if let OpRet::Id(id) = ret {
                    if id >= m.cap {
                        return fail(
                            "next_id.out-of-range",
                            clauses::C05,
                            format!("next_id() returned {id} >= capacity {}", m.cap),
                        );
                    }
                    if m.is_present(id) {
                        return fail(
                            "next_id.present",
                            clauses::C05,
                            format!("next_id() returned ν{id} which is present"),
                        );
                    }
                    if m.returned.contains(&id) {
                        return fail(
                            "next_id.repeated",
                            clauses::C05,
                            format!("next_id() returned ν{id} again (lineage {:?})", m.returned),
                        );
                    }
                    if m.collected_ever.contains(&id) {
                        self.stats.bump("probe.next_id_returns_collected_id");
                    }
                    m.note_returned(id);
                }
            }
        }
        // 5. the alive set and the edges against the model
        if obs.len != obs.keys.len() || obs.is_empty != obs.keys.is_empty() {
            return fail(
                "alive-set.len-disagrees-with-keys",
                &["C01", "C02", "C06"],
                format!("after {op:?}: len()={}, is_empty()={}, keys()={:?}", obs.len, obs.is_empty, obs.keys),
            );
        }
        let inst = self.view.insts[i].as_mut().unwrap();
        if inst.m.adoptive && !removed.is_empty() {
            // a slice's groups are left open by C13: C01's clauses have passed, the model adopts
            inst.m.adopt_removed(&removed);
            self.stats.bump("probe.kept_slice_group_died");
        }
        let mk = inst.m.keys();
        if mk != obs.keys {
            if let Some(mut f) = c01 {
                // safety and exactness fail in the same call
                f.message = format!("{}; keys()={:?}, reference model={mk:?}", f.message, obs.keys);
                f.owners.extend(clauses::ALIVE);
                return Err(f);
            }
            return fail(
                "alive-set.differs-from-model",
                clauses::ALIVE,
                format!("after {op:?}: keys()={:?}, reference model={mk:?}", obs.keys),
            );
        }
        if let Some(f) = c01 {
            if soft.is_none() {
                *soft = Some(f);
            }
        }
        if full {
            if let Err(f) = check_edges(&obs, &inst.m, &probes) {
                if soft.is_none() {
                    *soft = Some(f);
                }
            }
        }
        inst.last_obs = obs;
        inst.version += 1;
        inst.age += 1;
        // the hook-derived hints (allocator position, latent inconsistency, state sample) are
        // refreshed after allocator moves, every 4th operation, and on demand before gating
        if matches!(op, Op::NextId) || inst.age % 4 == 0 {
            self.refresh_hints(i);
        }
        Ok(ret)
    }

    /// Nothing may change in instances the step did not touch.
    pub(crate) fn check_untouched(&mut self, touched: &[usize]) -> Result<(), Failure> {
        let probes = self.view.probe_labels();
        let fam_touched: Vec<u32> = touched
            .iter()
            .filter_map(|t| self.view.insts[*t].as_ref().map(|x| x.family))
            .collect();
        for j in 0..self.gs.len() {
            if touched.contains(&j) {
                continue;
            }
            let (Some(g), Some(inst)) = (&self.gs[j], self.view.insts[j].as_mut()) else {
                continue;
            };
            if inst.poisoned {
                continue;
            }
            let reduced = self.view.cfg.sweep_every > 1 && self.view.steps_done % self.view.cfg.sweep_every != 0;
            if reduced && self.view.cfg.blind {
                // blind stretch: the other graphs are not asked either
                continue;
            }
            let obs = match if reduced { observe_keys(g) } else { observe(g, &probes, false) } {
                Ok(o) => o,
                Err(c) => return fail("query.panic", clauses::PANIC_Q, format!("{c:?}")),
            };
            if obs.keys.len() < inst.last_obs.keys.len()
                || inst.last_obs.keys.iter().any(|k| !obs.keys.contains(k))
            {
                return fail(
                    "removal.in-untouched-graph",
                    clauses::C01,
                    format!(
                        "a call on instance(s) {touched:?} removed vertices of instance {j}: {:?} -> {:?}",
                        inst.last_obs.keys, obs.keys
                    ),
                );
            }
            // the probe list only grows; diff() compares the common prefix
            if let Some(d) = inst.last_obs.diff(&obs) {
                let owners: Owners = if fam_touched.contains(&inst.family) {
                    clauses::C10
                } else {
                    clauses::C03
                };
                return fail(
                    "interference.untouched-graph-changed",
                    owners,
                    format!("a call on instance(s) {touched:?} changed answers of instance {j}: {d}"),
                );
            }
            inst.last_obs = obs;
        }
        Ok(())
    }

    pub(crate) fn deep(&self, i: usize) -> Result<Obs, Failure> {
        let probes = self.view.probe_labels();
        match observe(self.gs[i].as_ref().unwrap(), &probes, true) {
            Ok(o) => Ok(o),
            Err(c) => fail("query.panic", clauses::PANIC_Q, format!("{c:?}")),
        }
    }

    /// Apply one of the five basic ops to `i` and mirror it on its followers.
    pub(crate) fn op_with_followers(&mut self, i: usize, op: &Op) -> Result<OpRet, Failure> {
        let mut soft = None;
        let ret = match self.run_op_inner(i, op, &mut soft) {
            Ok(r) => r,
            Err(e) => return Err(self.attribute(i, op, e)),
        };
        if let Some(f) = soft {
            let f = self.attribute(i, op, f);
            if self.owned(&f) {
                return Err(f);
            }
            self.stats.bump(&format!("foreign.passed_over.{}", f.clause));
        }
        let followers = self.view.followers(i);
        let mut touched = vec![i];
        for (f, kind) in followers {
            touched.push(f);
            self.stats.bump(match kind {
                LinkKind::Reload => "lockstep.reload_steps",
                LinkKind::Clone => "lockstep.clone_steps",
            });
            let owners: Owners = match kind {
                LinkKind::Reload => clauses::C08,
                LinkKind::Clone => clauses::C10,
            };
            let mut fsoft = None;
            let fres = self.run_op_inner(f, op, &mut fsoft);
            let hard = fres.is_err();
            let fres = match (fres, fsoft) {
                (Err(e), _) => Err(e),
                (Ok(_), Some(e)) => Err(e),
                (Ok(r), None) => Ok(r),
            };
            let fret = match fres {
                Ok(r) => r,
                Err(mut e) => {
                    // the follower failed where the leader did not: that is the twin's property —
                    // except allocator freshness after a reload, which C08 exempts and C05 owns
                    if kind == LinkKind::Reload && e.clause.starts_with("next_id.") {
                        e.message = format!("reloaded twin {f} of instance {i}: {}", e.message);
                        return Err(e);
                    }
                    e.message = format!("follower {f} of instance {i} ({kind:?}): {}", e.message);
                    for o in owners {
                        if !e.owners.contains(o) {
                            e.owners.push(o);
                        }
                    }
                    e.clause = match kind {
                        LinkKind::Reload => "reload.diverges-in-continuation",
                        LinkKind::Clone => "clone.diverges-in-continuation",
                    };
                    if hard || self.owned(&e) {
                        return Err(e);
                    }
                    // observational, and not this check's business: the twin has left lockstep
                    self.stats.bump(&format!("foreign.passed_over.{}", e.clause));
                    self.view.insts[f].as_mut().unwrap().leader = None;
                    continue;
                }
            };
            let same = match (&ret, &fret, kind) {
                (OpRet::Id(_), OpRet::Id(_), LinkKind::Reload) => true,
                (a, b, _) => a == b,
            };
            if !same {
                return fail(
                    match kind {
                        LinkKind::Reload => "reload.answer-differs",
                        LinkKind::Clone => "clone.answer-differs",
                    },
                    owners,
                    format!("{op:?}: instance {i} answered {ret:?}, its {kind:?} twin {f} answered {fret:?}"),
                );
            }
            let k = self.view.cfg.sweep_every;
            if k > 1 && self.view.insts[i].as_ref().unwrap().age % (k as u64) != 0 {
                continue;
            }
            let (a, b) = (self.deep(i)?, self.deep(f)?);
            if let Some(d) = a.diff(&b) {
                return fail(
                    match kind {
                        LinkKind::Reload => "reload.sweep-differs",
                        LinkKind::Clone => "clone.sweep-differs",
                    },
                    owners,
                    format!("after {op:?}: instance {i} vs its {kind:?} twin {f}: {d}"),
                );
            }
        }
        self.check_untouched(&touched)?;
        Ok(ret)
    }

    /// End of run: one full sweep of every live graph against its model (runs with a reduced
    /// observation rate must not end without one).
    pub fn final_sweep(&mut self) -> Result<(), Failure> {
        let probes = self.view.probe_labels();
        for i in 0..self.gs.len() {
            if !self.usable(i) || self.view.insts[i].as_ref().unwrap().poisoned {
                continue;
            }
            let obs = match observe(self.gs[i].as_ref().unwrap(), &probes, false) {
                Ok(o) => o,
                Err(c) => return fail("query.panic", clauses::PANIC_Q, format!("final sweep: {c:?}")),
            };
            let inst = self.view.insts[i].as_ref().unwrap();
            if obs.keys != inst.m.keys() && !inst.m.adoptive {
                let f = fail::<()>("alive-set.differs-from-model", clauses::ALIVE, format!("final sweep of instance {i}: keys()={:?}, reference model={:?}", obs.keys, inst.m.keys())).unwrap_err();
                if self.owned(&f) {
                    return Err(f);
                }
                continue;
            }
            if let Err(f) = check_edges(&obs, &inst.m, &probes) {
                if self.owned(&f) {
                    return Err(f);
                }
            }
        }
        Ok(())
    }

    /// Does the property this run is judged for own the failure? (No property: every clause counts.)
    pub(crate) fn owned(&self, f: &Failure) -> bool {
        match &self.view.cfg.judge {
            Some(p) => f.owners.iter().any(|o| o == p),
            None => true,
        }
    }

    pub(crate) fn usable(&self, i: usize) -> bool {
        i < self.gs.len() && self.gs[i].is_some() && self.view.insts[i].is_some()
    }

    pub(crate) fn targetable(&self, i: usize) -> bool {
        self.usable(i) && self.view.insts[i].as_ref().unwrap().leader.is_none()
    }

    pub(crate) fn hash_step(&mut self, s: &Step, ret: &str) {
        let mut h = H64::default();
        h.str(s.kind());
        let k = h.finish();
        self.trace.u64(k);
        self.trace.str(ret);
        let mut t = H64::default();
        t.u64(self.recent[0]);
        t.u64(self.recent[1]);
        t.u64(k);
        self.stats.trigrams.insert(t.finish());
        self.recent = [self.recent[1], k];
    }

    pub(crate) fn id(&self, id: Id) -> Option<usize> {
        self.view.resolve(id)
    }
}

/// C03: kids() as a label→target map and kid() for every probe label, against the model.
pub fn check_edges(obs: &Obs, m: &RefGraph, probes: &[PLabel]) -> Result<(), Failure> {
    for vo in &obs.verts {
        let Some(mv) = m.present.get(&vo.v) else { continue };
        let mut got: Vec<(PLabel, usize)> = vo.kids.clone();
        got.sort();
        let mut want: Vec<(PLabel, usize)> = mv.edges.clone();
        want.sort();
        if got != want {
            let owners: Owners = if mv.edges.is_empty() && m.collected_ever.contains(&vo.v) {
                &["C03", "C04"]
            } else {
                clauses::C03
            };
            return fail(
                "kids.differ-from-last-binds",
                owners,
                format!("kids(ν{}) = {:?}, binds since creation say {:?}", vo.v, vo.kids, mv.edges),
            );
        }
        for (l, p) in probes.iter().zip(vo.probes.iter()) {
            let want = m.kid(vo.v, l);
            if *p != want {
                return fail(
                    "kid.differs-from-last-bind",
                    clauses::C03,
                    format!("kid(ν{}, {l:?}) = {p:?}, last bind says {want:?}", vo.v),
                );
            }
        }
    }
    Ok(())
}
