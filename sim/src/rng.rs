//! The only source of randomness in the simulator: SplitMix64 seeding a
//! xoshiro256** stream. Nothing here reads a clock, an address or the OS.

#[derive(Clone, Debug)]
pub struct Rng {
    s: [u64; 4],
}

pub fn splitmix(x: &mut u64) -> u64 {
    *x = x.wrapping_add(0x9E37_79B9_7F4A_7C15);
    let mut z = *x;
    z = (z ^ (z >> 30)).wrapping_mul(0xBF58_476D_1CE4_E5B9);
    z = (z ^ (z >> 27)).wrapping_mul(0x94D0_49BB_1331_11EB);
    z ^ (z >> 31)
}

/// Mix the batch seed, the property tag and the run index into one stream seed.
pub fn mix(seed: u64, tag: &str, run: u64) -> u64 {
    let mut h = seed ^ 0xD6E8_FEB8_6659_FD93;
    for b in tag.bytes() {
        h = (h ^ u64::from(b)).wrapping_mul(0x0100_0000_01B3);
    }
    let mut x = h ^ run.wrapping_mul(0xA24B_AED4_963E_E407);
    splitmix(&mut x)
}

impl Rng {
    pub fn new(seed: u64) -> Self {
        let mut x = seed;
        let s = [
            splitmix(&mut x),
            splitmix(&mut x),
            splitmix(&mut x),
            splitmix(&mut x),
        ];
        Self { s }
    }

    pub fn next_u64(&mut self) -> u64 {
        let r = self.s[1].wrapping_mul(5).rotate_left(7).wrapping_mul(9);
        let t = self.s[1] << 17;
        self.s[2] ^= self.s[0];
        self.s[3] ^= self.s[1];
        self.s[1] ^= self.s[2];
        self.s[0] ^= self.s[3];
        self.s[2] ^= t;
        self.s[3] = self.s[3].rotate_left(45);
        r
    }

    /// Uniform in `0..n` (`n > 0`).
    pub fn below(&mut self, n: usize) -> usize {
        debug_assert!(n > 0);
        ((u128::from(self.next_u64()) * (n as u128)) >> 64) as usize
    }

    /// Uniform in `lo..=hi`.
    pub fn range(&mut self, lo: usize, hi: usize) -> usize {
        lo + self.below(hi - lo + 1)
    }

    /// True with probability `num/den`.
    pub fn chance(&mut self, num: usize, den: usize) -> bool {
        self.below(den) < num
    }

    pub fn pick<'a, T>(&mut self, xs: &'a [T]) -> &'a T {
        &xs[self.below(xs.len())]
    }

    /// Index drawn with the given weights (not all zero).
    pub fn weighted(&mut self, w: &[u32]) -> usize {
        let total: u64 = w.iter().map(|x| u64::from(*x)).sum();
        debug_assert!(total > 0);
        let mut r = ((u128::from(self.next_u64()) * u128::from(total)) >> 64) as u64;
        for (i, x) in w.iter().enumerate() {
            if r < u64::from(*x) {
                return i;
            }
            r -= u64::from(*x);
        }
        w.len() - 1
    }

    pub fn shuffle<T>(&mut self, xs: &mut [T]) {
        for i in (1..xs.len()).rev() {
            let j = self.below(i + 1);
            xs.swap(i, j);
        }
    }
}

/// A running 64-bit hash used for event logs, plans and states.
#[derive(Clone, Copy, Debug)]
pub struct H64(pub u64);

impl Default for H64 {
    fn default() -> Self {
        Self(0xCBF2_9CE4_8422_2325)
    }
}

impl H64 {
    pub fn u64(&mut self, x: u64) {
        self.0 = (self.0.rotate_left(29) ^ x).wrapping_mul(0x9FB2_1C65_1E98_DF25);
        self.0 ^= self.0 >> 32;
    }
    pub fn usize(&mut self, x: usize) {
        self.u64(x as u64);
    }
    pub fn bytes(&mut self, b: &[u8]) {
        self.u64(b.len() as u64);
        for c in b.chunks(8) {
            let mut w = [0_u8; 8];
            w[..c.len()].copy_from_slice(c);
            self.u64(u64::from_le_bytes(w));
        }
    }
    pub fn str(&mut self, s: &str) {
        self.bytes(s.as_bytes());
    }
    pub fn finish(&self) -> u64 {
        let mut x = self.0;
        splitmix(&mut x)
    }
}
