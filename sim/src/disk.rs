//! `SimDisk`: the in-memory file system behind sodg's `fs` seam, with the
//! fault model of DESIGN §4.3. It emulates what `std::fs::write` really is:
//! open(O_CREAT|O_WRONLY|O_TRUNC), write…, close — and nothing is durable
//! against power loss until `sync` is called (sodg never calls it).

use crate::plan::{Loss, RFault, WFault};
use sodg::verif::fs::Disk;
use std::collections::BTreeMap;
use std::io;
use std::path::Path;

/// Payload of the unwind that stands for "the process died here".
pub struct SimCrash;

#[derive(Clone, Debug, Default)]
pub struct FileState {
    pub bytes: Vec<u8>,
    /// content before the last create() on this path (what a power loss may bring back)
    pub old: Option<Vec<u8>>,
    /// false from create() until sync(): a power loss may reduce the file
    pub synced: bool,
}

#[derive(Clone, Copy, Debug, PartialEq, Eq)]
enum Mode {
    Read,
    Write,
}

#[derive(Clone, Debug)]
struct Handle {
    path: String,
    mode: Mode,
    pos: usize,
}

#[derive(Clone, Debug, Default)]
pub struct DiskStats {
    pub creates: u64,
    pub opens: u64,
    pub writes: u64,
    pub reads: u64,
    pub syncs: u64,
    pub renames: u64,
    pub eintr: u64,
    pub short_io: u64,
    pub bytes_written: u64,
    pub bytes_read: u64,
    /// real files written / removed to keep the mirror directory equal to the disk
    pub mirror_writes: u64,
    /// files found changed in the mirror directory behind the disk's back and folded in
    pub bypass_imports: u64,
    pub metadata_calls: u64,
}

pub struct SimDisk {
    pub files: BTreeMap<String, FileState>,
    handles: BTreeMap<u64, Handle>,
    next_handle: u64,
    pub wfault: WFault,
    pub rfault: RFault,
    /// did the armed fault actually fire during the current call?
    pub fired: bool,
    /// bytes accepted by write() since the last arm_write()
    pub accepted: usize,
    delivered: usize,
    pub write_chunk: usize,
    pub read_chunk: usize,
    pub eintr_every: usize,
    io_calls: usize,
    eintr_pending: bool,
    pub stats: DiskStats,
    /// paths that were created or renamed onto since the last arm_write()
    pub touched: Vec<String>,
    /// is the mirror directory (see mirror.rs) kept for this disk?
    mirror: bool,
    /// what the mirror directory holds, as last written or read by this disk
    mirrored: BTreeMap<String, Vec<u8>>,
}

impl SimDisk {
    pub fn new(write_chunk: usize, read_chunk: usize, eintr_every: usize) -> Self {
        Self {
            files: BTreeMap::new(),
            handles: BTreeMap::new(),
            next_handle: 3,
            wfault: WFault::None,
            rfault: RFault::None,
            fired: false,
            accepted: 0,
            delivered: 0,
            write_chunk,
            read_chunk,
            eintr_every,
            io_calls: 0,
            eintr_pending: false,
            stats: DiskStats::default(),
            touched: Vec::new(),
            mirror: false,
            mirrored: BTreeMap::new(),
        }
    }

    /// Keep the process's mirror directory equal to this disk from now on.
    pub fn enable_mirror(&mut self) {
        if crate::mirror::root().is_some() {
            crate::mirror::wipe();
            self.mirror = true;
            self.mirrored.clear();
        }
    }

    fn real_path(k: &str) -> Option<std::path::PathBuf> {
        let os = crate::view::unescape(k);
        let p = Path::new(&os);
        if k.is_empty() || p.is_absolute() || p.components().any(|c| !matches!(c, std::path::Component::Normal(_))) {
            return None;
        }
        crate::mirror::root().map(|r| r.join(p))
    }

    /// Make the mirror directory equal to the disk (harness-side changes, finished writes).
    pub fn settle(&mut self) {
        if !self.mirror {
            return;
        }
        for (k, f) in &self.files {
            if self.mirrored.get(k) != Some(&f.bytes) {
                if let Some(rp) = Self::real_path(k) {
                    if let Some(parent) = rp.parent() {
                        let _ = std::fs::create_dir_all(parent);
                    }
                    if std::fs::write(&rp, &f.bytes).is_ok() {
                        self.mirrored.insert(k.clone(), f.bytes.clone());
                        self.stats.mirror_writes += 1;
                    }
                }
            }
        }
        let gone: Vec<String> = self.mirrored.keys().filter(|k| !self.files.contains_key(*k)).cloned().collect();
        for k in gone {
            if let Some(rp) = Self::real_path(&k) {
                let _ = std::fs::remove_file(rp);
                self.stats.mirror_writes += 1;
            }
            self.mirrored.remove(&k);
        }
    }

    /// Fold in what was written, changed or removed in the mirror directory without going
    /// through the seam (code that uses a re-exported `std::fs` item directly).
    pub fn absorb(&mut self) {
        if !self.mirror {
            return;
        }
        let Some(root) = crate::mirror::root() else { return };
        let mut real: BTreeMap<String, Vec<u8>> = BTreeMap::new();
        if let Ok(rd) = std::fs::read_dir(root) {
            for e in rd.flatten() {
                if e.file_type().is_ok_and(|t| t.is_file()) {
                    if let Ok(b) = std::fs::read(e.path()) {
                        use std::os::unix::ffi::OsStrExt;
                        real.insert(crate::view::escape(e.file_name().as_bytes()), b);
                    }
                }
            }
        }
        for (k, b) in &real {
            if self.mirrored.get(k) != Some(b) {
                let old = self.files.get(k).map(|f| f.bytes.clone());
                self.files.insert(
                    k.clone(),
                    FileState {
                        bytes: b.clone(),
                        old,
                        synced: false,
                    },
                );
                self.touched.push(k.clone());
                self.mirrored.insert(k.clone(), b.clone());
                self.stats.bypass_imports += 1;
            }
        }
        let gone: Vec<String> = self
            .mirrored
            .keys()
            .filter(|k| !k.contains('/') && !real.contains_key(*k))
            .cloned()
            .collect();
        for k in gone {
            self.files.remove(&k);
            self.mirrored.remove(&k);
            self.stats.bypass_imports += 1;
        }
    }

    pub fn arm_write(&mut self, f: WFault) {
        self.wfault = f;
        self.fired = false;
        self.accepted = 0;
        self.touched.clear();
        self.settle();
    }

    pub fn arm_read(&mut self, f: RFault) {
        self.rfault = f;
        self.fired = false;
        self.delivered = 0;
        self.settle();
    }

    pub fn disarm(&mut self) {
        self.wfault = WFault::None;
        self.rfault = RFault::None;
        self.handles.clear();
        self.absorb();
        self.settle();
    }

    pub fn content(&self, path: &str) -> Option<&[u8]> {
        self.files.get(path).map(|f| f.bytes.as_slice())
    }

    pub fn set_content(&mut self, path: &str, bytes: Vec<u8>) {
        self.files.insert(
            path.to_string(),
            FileState {
                bytes,
                old: None,
                synced: true,
            },
        );
        self.settle();
    }

    /// The process is gone: open handles vanish. Returns the paths that were un-synced.
    pub fn crash(&mut self) -> Vec<String> {
        self.handles.clear();
        self.files
            .iter()
            .filter(|(_, f)| !f.synced)
            .map(|(p, _)| p.clone())
            .collect()
    }

    /// Apply what a power loss does to one un-synced file. Returns true when content changed.
    pub fn lose(&mut self, path: &str, loss: Loss) -> bool {
        let Some(f) = self.files.get_mut(path) else {
            return false;
        };
        if f.synced {
            return false;
        }
        let before = f.bytes.clone();
        match loss {
            Loss::Keep => {}
            Loss::Old => match f.old.take() {
                Some(o) => f.bytes = o,
                None => {
                    self.files.remove(path);
                    return true;
                }
            },
            Loss::Empty => f.bytes.clear(),
            Loss::Prefix(k) => {
                let k = k.min(f.bytes.len());
                f.bytes.truncate(k);
            }
        }
        let f = self.files.get_mut(path).unwrap();
        f.synced = true;
        f.old = None;
        f.bytes != before
    }

    fn maybe_eintr(&mut self) -> bool {
        if self.eintr_every == 0 {
            return false;
        }
        if self.eintr_pending {
            // the retried call goes through
            self.eintr_pending = false;
            return false;
        }
        self.io_calls += 1;
        if self.io_calls % self.eintr_every == 0 {
            self.eintr_pending = true;
            self.stats.eintr += 1;
            return true;
        }
        false
    }
}

/// The disk's name of a path: relative to the mirror directory, without `./`, bytes that are
/// not UTF-8 escaped (view::escape).
fn key(p: &Path) -> String {
    use std::os::unix::ffi::OsStrExt;
    let p = match crate::mirror::root() {
        Some(r) => p.strip_prefix(r).unwrap_or(p),
        None => p,
    };
    let p = p.strip_prefix(".").unwrap_or(p);
    crate::view::escape(p.as_os_str().as_bytes())
}

fn err(code: i32) -> io::Error {
    io::Error::from_raw_os_error(code)
}

impl Disk for SimDisk {
    fn create(&mut self, path: &Path) -> io::Result<u64> {
        self.stats.creates += 1;
        if self.wfault == WFault::OpenFail {
            self.fired = true;
            return Err(err(libc::EACCES));
        }
        let k = key(path);
        if self.mirror && !self.files.contains_key(&k) {
            self.absorb();
        }
        self.touched.push(k.clone());
        let old = self.files.get(&k).map(|f| f.bytes.clone());
        self.files.insert(
            k.clone(),
            FileState {
                bytes: Vec::new(),
                old,
                synced: false,
            },
        );
        let h = self.next_handle;
        self.next_handle += 1;
        self.handles.insert(
            h,
            Handle {
                path: k,
                mode: Mode::Write,
                pos: 0,
            },
        );
        self.settle();
        Ok(h)
    }

    fn create_new(&mut self, path: &Path) -> io::Result<u64> {
        let k = key(path);
        if self.mirror && !self.files.contains_key(&k) {
            self.absorb();
        }
        if self.files.contains_key(&k) && self.wfault != WFault::OpenFail {
            self.stats.creates += 1;
            return Err(err(libc::EEXIST));
        }
        self.create(path)
    }

    fn metadata(&mut self, handle: u64) -> io::Result<std::fs::Metadata> {
        self.stats.metadata_calls += 1;
        let Some(h) = self.handles.get(&handle).cloned() else {
            return Err(err(libc::EBADF));
        };
        if !self.mirror {
            return Err(io::Error::from(io::ErrorKind::Unsupported));
        }
        self.settle();
        match Self::real_path(&h.path) {
            Some(rp) => std::fs::metadata(rp),
            None => Err(io::Error::from(io::ErrorKind::Unsupported)),
        }
    }

    fn set_len(&mut self, handle: u64, size: u64) -> io::Result<()> {
        let Some(h) = self.handles.get(&handle).cloned() else {
            return Err(err(libc::EBADF));
        };
        if h.mode != Mode::Write {
            return Err(err(libc::EINVAL));
        }
        let f = self.files.get_mut(&h.path).ok_or_else(|| err(libc::EIO))?;
        f.bytes.resize(size as usize, 0);
        f.synced = false;
        self.settle();
        Ok(())
    }

    fn seek(&mut self, handle: u64, pos: io::SeekFrom) -> io::Result<u64> {
        let Some(h) = self.handles.get(&handle).cloned() else {
            return Err(err(libc::EBADF));
        };
        let len = self.files.get(&h.path).map_or(0, |f| f.bytes.len()) as i128;
        let to: i128 = match pos {
            io::SeekFrom::Start(n) => i128::from(n),
            io::SeekFrom::End(d) => len + i128::from(d),
            io::SeekFrom::Current(d) => h.pos as i128 + i128::from(d),
        };
        if to < 0 {
            return Err(err(libc::EINVAL));
        }
        self.handles.get_mut(&handle).unwrap().pos = to as usize;
        Ok(to as u64)
    }

    fn open(&mut self, path: &Path) -> io::Result<u64> {
        self.stats.opens += 1;
        let k = key(path);
        if self.rfault == RFault::Enoent {
            self.fired = true;
            return Err(err(libc::ENOENT));
        }
        if self.mirror && !self.files.contains_key(&k) {
            self.absorb();
        }
        if !self.files.contains_key(&k) {
            return Err(err(libc::ENOENT));
        }
        let h = self.next_handle;
        self.next_handle += 1;
        self.handles.insert(
            h,
            Handle {
                path: k,
                mode: Mode::Read,
                pos: 0,
            },
        );
        Ok(h)
    }

    fn write(&mut self, handle: u64, buf: &[u8]) -> io::Result<usize> {
        self.stats.writes += 1;
        let Some(h) = self.handles.get(&handle).cloned() else {
            return Err(err(libc::EBADF));
        };
        if h.mode != Mode::Write {
            return Err(err(libc::EBADF));
        }
        if buf.is_empty() {
            return Ok(0);
        }
        if self.maybe_eintr() {
            return Err(err(libc::EINTR));
        }
        let mut take = buf.len();
        if self.write_chunk > 0 && take > self.write_chunk {
            take = self.write_chunk;
            self.stats.short_io += 1;
        }
        let limit = match self.wfault {
            WFault::FailAfterTrunc => Some(0),
            WFault::Short(k) | WFault::CrashMid(k) => Some(k),
            _ => None,
        };
        if let Some(limit) = limit {
            let room = limit.saturating_sub(self.accepted);
            if room == 0 {
                self.fired = true;
                self.settle();
                if matches!(self.wfault, WFault::CrashMid(_)) {
                    std::panic::resume_unwind(Box::new(SimCrash));
                }
                return Err(err(libc::ENOSPC));
            }
            take = take.min(room);
        }
        let f = self.files.get_mut(&h.path).ok_or_else(|| err(libc::EIO))?;
        if f.bytes.len() < h.pos {
            f.bytes.resize(h.pos, 0);
        }
        let end = h.pos + take;
        if f.bytes.len() < end {
            f.bytes.resize(end, 0);
        }
        f.bytes[h.pos..end].copy_from_slice(&buf[..take]);
        f.synced = false;
        self.handles.get_mut(&handle).unwrap().pos = end;
        self.accepted += take;
        self.stats.bytes_written += take as u64;
        Ok(take)
    }

    fn read(&mut self, handle: u64, buf: &mut [u8]) -> io::Result<usize> {
        self.stats.reads += 1;
        let Some(h) = self.handles.get(&handle).cloned() else {
            return Err(err(libc::EBADF));
        };
        if h.mode != Mode::Read {
            return Err(err(libc::EBADF));
        }
        if buf.is_empty() {
            return Ok(0);
        }
        if self.maybe_eintr() {
            return Err(err(libc::EINTR));
        }
        let f = self.files.get(&h.path).ok_or_else(|| err(libc::EIO))?;
        let mut take = buf.len().min(f.bytes.len().saturating_sub(h.pos));
        if self.read_chunk > 0 && take > self.read_chunk {
            take = self.read_chunk;
            self.stats.short_io += 1;
        }
        if let RFault::Eio(k) = self.rfault {
            let room = k.saturating_sub(self.delivered);
            if room == 0 {
                self.fired = true;
                return Err(err(libc::EIO));
            }
            take = take.min(room);
        }
        buf[..take].copy_from_slice(&f.bytes[h.pos..h.pos + take]);
        self.handles.get_mut(&handle).unwrap().pos = h.pos + take;
        self.delivered += take;
        self.stats.bytes_read += take as u64;
        Ok(take)
    }

    fn sync(&mut self, handle: u64) -> io::Result<()> {
        self.stats.syncs += 1;
        let Some(h) = self.handles.get(&handle) else {
            return Err(err(libc::EBADF));
        };
        if let Some(f) = self.files.get_mut(&h.path) {
            f.synced = true;
            f.old = None;
        }
        self.settle();
        Ok(())
    }

    fn close(&mut self, handle: u64) {
        if let Some(h) = self.handles.remove(&handle) {
            if h.mode == Mode::Write {
                self.settle();
            }
        }
    }

    fn rename(&mut self, from: &Path, to: &Path) -> io::Result<()> {
        self.stats.renames += 1;
        if self.mirror && !self.files.contains_key(&key(from)) {
            self.absorb();
        }
        let Some(f) = self.files.remove(&key(from)) else {
            return Err(err(libc::ENOENT));
        };
        self.touched.push(key(to));
        let old = self.files.get(&key(to)).map(|x| x.bytes.clone());
        self.files.insert(
            key(to),
            FileState {
                bytes: f.bytes,
                old: if f.synced { None } else { old },
                synced: f.synced,
            },
        );
        self.settle();
        Ok(())
    }

    fn remove(&mut self, path: &Path) -> io::Result<()> {
        if self.mirror && !self.files.contains_key(&key(path)) {
            self.absorb();
        }
        match self.files.remove(&key(path)) {
            Some(_) => {
                self.settle();
                Ok(())
            }
            None => Err(err(libc::ENOENT)),
        }
    }
}
