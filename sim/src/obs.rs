//! Read-only observation of a graph through its public API, and the
//! panic-catching wrapper every call into sodg goes through.

use crate::disk::SimCrash;
use crate::plan::PLabel;
use crate::rng::H64;
use sodg::Sodg;
use std::cell::RefCell;
use std::panic::{catch_unwind, AssertUnwindSafe};

thread_local! {
    static LAST_PANIC: RefCell<String> = const { RefCell::new(String::new()) };
}

/// Install a panic hook that records instead of printing.
pub fn install_quiet_panic_hook() {
    std::panic::set_hook(Box::new(|info| {
        let loc = info
            .location()
            .map(|l| format!("{}:{}", l.file(), l.line()))
            .unwrap_or_default();
        let msg = if let Some(s) = info.payload().downcast_ref::<&str>() {
            (*s).to_string()
        } else if let Some(s) = info.payload().downcast_ref::<String>() {
            s.clone()
        } else {
            "<non-string panic>".to_string()
        };
        LAST_PANIC.with(|p| *p.borrow_mut() = format!("{msg} @ {loc}"));
    }));
}

#[derive(Debug)]
pub enum Caught {
    Panic(String),
    Crash,
}

/// Run `f`, turning a panic into `Err(Panic)` and the simulated process death into `Err(Crash)`.
pub fn guarded<T>(f: impl FnOnce() -> T) -> Result<T, Caught> {
    match catch_unwind(AssertUnwindSafe(f)) {
        Ok(v) => Ok(v),
        Err(p) => {
            if p.downcast_ref::<SimCrash>().is_some() {
                Err(Caught::Crash)
            } else {
                let msg = LAST_PANIC.with(|m| m.borrow().clone());
                Err(Caught::Panic(msg))
            }
        }
    }
}

#[derive(Clone, Debug, PartialEq, Eq)]
pub struct VObs {
    pub v: usize,
    /// in enumeration order
    pub kids: Vec<(PLabel, usize)>,
    /// kid(v, l) for every probe label
    pub probes: Vec<Option<usize>>,
    pub vprint: String,
    pub inspect: String,
}

#[derive(Clone, Debug, PartialEq, Eq, Default)]
pub struct Obs {
    pub keys: Vec<usize>,
    pub len: usize,
    pub is_empty: bool,
    pub verts: Vec<VObs>,
    /// Debug text without the `b<n>: {…}` lines (group numbers are never compared)
    pub debug: String,
    pub deep: bool,
}

impl Obs {
    pub fn hash(&self) -> u64 {
        let mut h = H64::default();
        for k in &self.keys {
            h.usize(*k);
        }
        h.usize(self.len);
        for v in &self.verts {
            h.usize(v.v);
            for (l, t) in &v.kids {
                h.str(&format!("{l:?}"));
                h.usize(*t);
            }
            for p in &v.probes {
                h.usize(p.map_or(usize::MAX, |x| x));
            }
            h.str(&v.vprint);
            h.str(&v.inspect);
        }
        h.str(&self.debug);
        h.finish()
    }

    /// Which kind of answer differs first: "keys", "edges", "data" (the data marker of v_print) or "text".
    pub fn diff_kind(&self, other: &Self) -> Option<&'static str> {
        if self.keys != other.keys || self.len != other.len || self.is_empty != other.is_empty {
            return Some("keys");
        }
        for (a, b) in self.verts.iter().zip(other.verts.iter()) {
            if a.kids != b.kids || a.probes.iter().zip(b.probes.iter()).any(|(x, y)| x != y) {
                return Some("edges");
            }
            if !a.vprint.is_empty() && !b.vprint.is_empty() && a.vprint.contains('Δ') != b.vprint.contains('Δ') {
                return Some("data");
            }
        }
        self.diff(other).map(|_| "text")
    }

    /// First difference between two observations, in words.
    pub fn diff(&self, other: &Self) -> Option<String> {
        if self.keys != other.keys {
            return Some(format!("keys {:?} vs {:?}", self.keys, other.keys));
        }
        if self.len != other.len || self.is_empty != other.is_empty {
            return Some(format!(
                "len/is_empty {}/{} vs {}/{}",
                self.len, self.is_empty, other.len, other.is_empty
            ));
        }
        for (a, b) in self.verts.iter().zip(other.verts.iter()) {
            if a.kids != b.kids {
                return Some(format!("kids(ν{}) {:?} vs {:?}", a.v, a.kids, b.kids));
            }
            if a.probes.iter().zip(b.probes.iter()).any(|(x, y)| x != y) {
                return Some(format!("kid(ν{},·) {:?} vs {:?}", a.v, a.probes, b.probes));
            }
            if a.vprint != b.vprint && !a.vprint.is_empty() && !b.vprint.is_empty() {
                return Some(format!("v_print(ν{}) {:?} vs {:?}", a.v, a.vprint, b.vprint));
            }
            if a.inspect != b.inspect {
                return Some(format!("inspect(ν{}) {:?} vs {:?}", a.v, a.inspect, b.inspect));
            }
        }
        if self.debug != other.debug {
            return Some(format!("Debug text {:?} vs {:?}", self.debug, other.debug));
        }
        None
    }
}

/// Observe `g` through keys/len/is_empty/kids/kid/v_print (+ inspect and Debug when `deep`).
/// Only keys(), len() and is_empty(): what the safety and alive-set clauses need, and nothing
/// that would keep a lookup cache inside the code under test warm.
pub fn observe_keys<const N: usize>(g: &Sodg<N>) -> Result<Obs, Caught> {
    guarded(|| {
        let keys = g.keys();
        Obs {
            len: g.len(),
            is_empty: g.is_empty(),
            keys,
            verts: Vec::new(),
            debug: String::new(),
            deep: false,
        }
    })
}

pub fn observe<const N: usize>(g: &Sodg<N>, probes: &[PLabel], deep: bool) -> Result<Obs, Caught> {
    guarded(|| {
        let keys = g.keys();
        let mut verts = Vec::with_capacity(keys.len());
        let do_inspect = deep && keys.len() <= 40;
        // on large graphs the per-vertex text is produced on demand only (see run_op's add clause)
        let do_vprint = deep || keys.len() <= 48;
        for &v in &keys {
            let kids: Vec<(PLabel, usize)> = g
                .kids(v)
                .map(|(l, t)| (PLabel::from_label(l), *t))
                .collect();
            let pr = probes.iter().map(|l| g.kid(v, l.to_label())).collect();
            let vprint = if do_vprint { g.v_print(v).unwrap_or_else(|e| format!("ERR {e}")) } else { String::new() };
            let inspect = if do_inspect {
                g.inspect(v).unwrap_or_else(|e| format!("ERR {e}"))
            } else {
                String::new()
            };
            verts.push(VObs {
                v,
                kids,
                probes: pr,
                vprint,
                inspect,
            });
        }
        let debug = if deep {
            format!("{g:?}")
                .lines()
                .filter(|l| !is_group_line(l))
                .collect::<Vec<_>>()
                .join("\n")
        } else {
            String::new()
        };
        Obs {
            len: g.len(),
            is_empty: g.is_empty(),
            keys,
            verts,
            debug,
            deep,
        }
    })
}

fn is_group_line(l: &str) -> bool {
    let mut c = l.chars();
    if c.next() != Some('b') {
        return false;
    }
    let rest: String = c.collect();
    let Some((num, tail)) = rest.split_once(':') else {
        return false;
    };
    !num.is_empty() && num.chars().all(|x| x.is_ascii_digit()) && tail.starts_with(" {")
}
