//! Counters a run (and, summed, a batch) reports: faults that actually fired,
//! "rare condition was hit" probes, and sampled sets for distinctness measures.

use serde::{Deserialize, Serialize};
use std::collections::{BTreeMap, BTreeSet};

/// Hashes with `h % SAMPLE == 0` are kept; the distinct count is estimated as `kept * SAMPLE`.
pub const STATE_SAMPLE: u64 = 64;

#[derive(Serialize, Deserialize, Clone, Debug, Default)]
pub struct Stats {
    pub counters: BTreeMap<String, u64>,
    pub state_sample: BTreeSet<u64>,
    pub trigrams: BTreeSet<u64>,
    pub interleavings: BTreeSet<u64>,
}

impl Stats {
    pub fn bump(&mut self, k: &str) {
        self.add(k, 1);
    }

    pub fn add(&mut self, k: &str, n: u64) {
        if let Some(c) = self.counters.get_mut(k) {
            *c += n;
        } else {
            self.counters.insert(k.to_string(), n);
        }
    }

    pub fn max(&mut self, k: &str, n: u64) {
        let c = self.counters.entry(k.to_string()).or_insert(0);
        if *c < n {
            *c = n;
        }
    }

    pub fn get(&self, k: &str) -> u64 {
        self.counters.get(k).copied().unwrap_or(0)
    }

    pub fn state(&mut self, h: u64) {
        if h % STATE_SAMPLE == 0 {
            self.state_sample.insert(h);
        }
    }

    pub fn merge(&mut self, o: &Self) {
        for (k, v) in &o.counters {
            if k.starts_with("max.") {
                self.max(k, *v);
            } else {
                self.add(k, *v);
            }
        }
        self.state_sample.extend(o.state_sample.iter().copied());
        self.trigrams.extend(o.trigrams.iter().copied());
        self.interleavings.extend(o.interleavings.iter().copied());
    }
}
