//! `RefGraph`: the executable reference model of C01–C06. No arrays, no
//! counters, no slots: a map of present vertices, a partition into groups,
//! and the call history needed by the history-phrased clauses.

use crate::plan::PLabel;
use std::collections::{BTreeMap, BTreeSet};

pub const MAX_GROUP: usize = 16;
pub const MAX_GROUPS: usize = 14;

#[derive(Clone, Debug, PartialEq, Eq)]
pub struct MV {
    /// insertion ordered, a re-bound label keeps its position
    pub edges: Vec<(PLabel, usize)>,
    pub data: Option<Vec<u8>>,
    pub unread: bool,
    pub group: Option<u32>,
    /// incarnation number: a re-added id is a new vertex
    pub inc: u32,
}

#[derive(Clone, Debug)]
pub struct RefGraph {
    pub cap: usize,
    pub n: usize,
    pub present: BTreeMap<usize, MV>,
    pub groups: BTreeMap<u32, BTreeSet<usize>>,
    next_group: u32,
    // ---- call history (C01) ----
    next_inc: u32,
    uf: Vec<u32>,
    bound_ever: Vec<bool>,
    /// ids whose vertex was collected at least once
    pub collected_ever: BTreeSet<usize>,
    /// ids that were present at least once
    pub used_ever: BTreeSet<usize>,
    // ---- C05 lineage ----
    pub returned: BTreeSet<usize>,
    // ---- statistics for probes ----
    pub groups_formed: u64,
    pub groups_died: u64,
    /// a sliced graph: its groups depend on the rebuild order, which C13 leaves open; the model
    /// adopts the implementation's collections (after C01's clauses) and allows no add/bind
    pub adoptive: bool,
}

/// What one `data()` call did according to the model.
#[derive(Clone, Debug, PartialEq, Eq)]
pub struct ReadOutcome {
    pub value: Option<Vec<u8>>,
    pub first_read: bool,
    pub removed: Vec<usize>,
}

impl RefGraph {
    pub fn new(cap: usize, n: usize) -> Self {
        Self {
            cap,
            n,
            present: BTreeMap::new(),
            groups: BTreeMap::new(),
            next_group: 0,
            next_inc: 0,
            uf: Vec::new(),
            bound_ever: Vec::new(),
            collected_ever: BTreeSet::new(),
            used_ever: BTreeSet::new(),
            returned: BTreeSet::new(),
            groups_formed: 0,
            groups_died: 0,
            adoptive: false,
        }
    }

    pub fn keys(&self) -> Vec<usize> {
        self.present.keys().copied().collect()
    }

    pub fn is_present(&self, v: usize) -> bool {
        self.present.contains_key(&v)
    }

    pub fn groups_alive(&self) -> usize {
        self.groups.len()
    }

    pub fn group_size(&self, v: usize) -> usize {
        self.present
            .get(&v)
            .and_then(|m| m.group)
            .map_or(0, |g| self.groups[&g].len())
    }

    pub fn kid(&self, v: usize, l: &PLabel) -> Option<usize> {
        self.present
            .get(&v)?
            .edges
            .iter()
            .find(|(a, _)| a == l)
            .map(|(_, t)| *t)
    }

    pub fn unread_ids(&self) -> Vec<usize> {
        self.present
            .iter()
            .filter(|(_, m)| m.unread)
            .map(|(k, _)| *k)
            .collect()
    }

    // ---------------- contract (the quantifier text of the properties) ----------------

    pub fn can_add(&self, v: usize) -> bool {
        v < self.cap && !self.adoptive
    }

    pub fn can_bind(&self, a: usize, b: usize, l: &PLabel) -> bool {
        if a == b || self.adoptive {
            return false;
        }
        let (Some(ma), Some(mb)) = (self.present.get(&a), self.present.get(&b)) else {
            return false;
        };
        if !ma.edges.iter().any(|(x, _)| x == l) && ma.edges.len() >= self.n {
            return false;
        }
        match (ma.group, mb.group) {
            (None, None) => self.groups.len() < MAX_GROUPS,
            (Some(g), None) | (None, Some(g)) => self.groups[&g].len() < MAX_GROUP,
            (Some(_), Some(_)) => true,
        }
    }

    pub fn can_put(&self, v: usize) -> bool {
        self.is_present(v)
    }

    pub fn can_data(&self, v: usize) -> bool {
        self.is_present(v)
    }

    /// C05's precondition minus the allocator position (which only the hook knows).
    pub fn has_absent_at_or_above(&self, pos: usize) -> bool {
        (pos..self.cap).any(|v| !self.is_present(v))
    }

    // ---------------- operations ----------------

    fn new_inc(&mut self) -> u32 {
        let i = self.next_inc;
        self.next_inc += 1;
        self.uf.push(i);
        self.bound_ever.push(false);
        i
    }

    fn find(&self, mut x: u32) -> u32 {
        while self.uf[x as usize] != x {
            x = self.uf[x as usize];
        }
        x
    }

    fn union(&mut self, a: u32, b: u32) {
        let (ra, rb) = (self.find(a), self.find(b));
        if ra != rb {
            self.uf[ra as usize] = rb;
        }
    }

    /// Connected through the history of binds (by incarnation)?
    pub fn linked(&self, a_inc: u32, b_inc: u32) -> bool {
        self.find(a_inc) == self.find(b_inc)
    }

    pub fn was_bound(&self, inc: u32) -> bool {
        self.bound_ever[inc as usize]
    }

    /// Returns true when the vertex was created (false: it was present, nothing happens).
    pub fn add(&mut self, v: usize) -> bool {
        if self.present.contains_key(&v) {
            return false;
        }
        let inc = self.new_inc();
        self.present.insert(
            v,
            MV {
                edges: Vec::new(),
                data: None,
                unread: false,
                group: None,
                inc,
            },
        );
        self.used_ever.insert(v);
        true
    }

    pub fn bind(&mut self, a: usize, b: usize, l: &PLabel) {
        let (ia, ga) = {
            let m = &self.present[&a];
            (m.inc, m.group)
        };
        let (ib, gb) = {
            let m = &self.present[&b];
            (m.inc, m.group)
        };
        {
            let ma = self.present.get_mut(&a).unwrap();
            if let Some(e) = ma.edges.iter_mut().find(|(x, _)| x == l) {
                e.1 = b;
            } else {
                ma.edges.push((l.clone(), b));
            }
        }
        self.union(ia, ib);
        self.bound_ever[ia as usize] = true;
        self.bound_ever[ib as usize] = true;
        if self.adoptive {
            return;
        }
        match (ga, gb) {
            (None, None) => {
                let g = self.next_group;
                self.next_group += 1;
                self.groups.insert(g, [a, b].into_iter().collect());
                self.present.get_mut(&a).unwrap().group = Some(g);
                self.present.get_mut(&b).unwrap().group = Some(g);
                self.groups_formed += 1;
            }
            (Some(g), None) => {
                self.groups.get_mut(&g).unwrap().insert(b);
                self.present.get_mut(&b).unwrap().group = Some(g);
            }
            (None, Some(g)) => {
                self.groups.get_mut(&g).unwrap().insert(a);
                self.present.get_mut(&a).unwrap().group = Some(g);
            }
            (Some(_), Some(_)) => {}
        }
    }

    pub fn put(&mut self, v: usize, d: &[u8]) {
        let m = self.present.get_mut(&v).unwrap();
        m.data = Some(d.to_vec());
        m.unread = true;
    }

    pub fn data(&mut self, v: usize) -> ReadOutcome {
        let (value, first_read, group) = {
            let m = self.present.get_mut(&v).unwrap();
            let first = m.unread;
            m.unread = false;
            (m.data.clone(), first, m.group)
        };
        let mut removed = Vec::new();
        if first_read {
            if let Some(g) = group {
                let any_unread = self.groups[&g].iter().any(|x| self.present[x].unread);
                if !any_unread {
                    let members = self.groups.remove(&g).unwrap();
                    for x in members {
                        self.present.remove(&x);
                        self.collected_ever.insert(x);
                        removed.push(x);
                    }
                    self.groups_died += 1;
                }
            }
        }
        ReadOutcome {
            value,
            first_read,
            removed,
        }
    }

    /// The read as `data()` does it, but the collection is whatever the implementation did.
    pub fn data_adopt(&mut self, v: usize, removed: &[usize]) -> ReadOutcome {
        let (value, first_read, group) = {
            let m = self.present.get_mut(&v).unwrap();
            let first = m.unread;
            m.unread = false;
            (m.data.clone(), first, m.group)
        };
        // By the specification the group dies now if this was its last unread datum. Members the
        // implementation leaves alive all the same (an exactness divergence, somebody else's clause)
        // stop counting as a group: the limits the following calls are held to (groups alive,
        // members per group) are those of the specification, not of the implementation's leftovers.
        if let (true, Some(g)) = (first_read, group) {
            if self.groups.get(&g).is_some_and(|s| !s.iter().any(|x| self.present[x].unread)) {
                let members = self.groups.remove(&g).unwrap();
                for x in members {
                    if !removed.contains(&x) {
                        self.present.get_mut(&x).unwrap().group = None;
                    }
                }
                self.groups_died += 1;
            }
        }
        for r in removed {
            if let Some(mv) = self.present.remove(r) {
                self.collected_ever.insert(*r);
                if let Some(g) = mv.group {
                    let empty = self.groups.get_mut(&g).is_some_and(|s| {
                        s.remove(r);
                        s.is_empty()
                    });
                    if empty {
                        self.groups.remove(&g);
                        self.groups_died += 1;
                    }
                }
            }
        }
        ReadOutcome { value, first_read, removed: removed.to_vec() }
    }

    /// Adoptive graphs only: take over a collection the implementation made.
    pub fn adopt_removed(&mut self, removed: &[usize]) {
        for r in removed {
            if self.present.remove(r).is_some() {
                self.collected_ever.insert(*r);
            }
        }
    }

    /// Build the model of a slice: the kept vertices and the edges the slice really has.
    pub fn slice_model(cap: usize, n: usize, verts: &[(usize, Vec<(PLabel, usize)>)]) -> Self {
        let mut m = Self::new(cap, n);
        for (v, _) in verts {
            m.add(*v);
        }
        m.adoptive = true;
        for (v, kids) in verts {
            for (l, t) in kids {
                if m.is_present(*t) {
                    m.bind(*v, *t, l);
                }
            }
        }
        m
    }

    /// Record an id handed out by the allocator (the model adopts it).
    pub fn note_returned(&mut self, v: usize) {
        self.returned.insert(v);
    }

    /// A reloaded graph starts a new allocator lineage.
    pub fn reset_lineage(&mut self) {
        self.returned.clear();
    }

    // ---------------- shapes ----------------

    /// Vertices reachable from `v` along edges accepted by `p`; `None` when
    /// some reachable id is not present (outside C13's domain).
    pub fn closure(
        &self,
        v: usize,
        p: &dyn Fn(usize, usize, &PLabel) -> bool,
    ) -> Option<BTreeSet<usize>> {
        if !self.is_present(v) {
            return None;
        }
        let mut done = BTreeSet::new();
        let mut todo = vec![v];
        done.insert(v);
        while let Some(x) = todo.pop() {
            for (l, t) in &self.present[&x].edges {
                if done.contains(t) || !p(x, *t, l) {
                    continue;
                }
                if !self.is_present(*t) {
                    return None;
                }
                done.insert(*t);
                todo.push(*t);
            }
        }
        Some(done)
    }

    /// Is the whole graph one tree of present vertices rooted at `root`
    /// (every present vertex reached exactly once, no edge into an absent id)?
    pub fn is_tree_rooted_at(&self, root: usize) -> bool {
        if !self.is_present(root) {
            return false;
        }
        let mut seen = BTreeSet::new();
        let mut todo = vec![root];
        seen.insert(root);
        while let Some(x) = todo.pop() {
            for (_, t) in &self.present[&x].edges {
                if !self.is_present(*t) || !seen.insert(*t) {
                    return false;
                }
                todo.push(*t);
            }
        }
        seen.len() == self.present.len()
    }

    /// The vertices reached from `root` if that part of the graph is a tree of present vertices.
    pub fn tree_from(&self, root: usize) -> Option<BTreeSet<usize>> {
        if !self.is_present(root) {
            return None;
        }
        let mut seen = BTreeSet::new();
        let mut todo = vec![root];
        seen.insert(root);
        while let Some(x) = todo.pop() {
            for (_, t) in &self.present[&x].edges {
                if !self.is_present(*t) || !seen.insert(*t) {
                    return None;
                }
                todo.push(*t);
            }
        }
        Some(seen)
    }

    /// The root of the tree this graph is, if it is one.
    pub fn tree_root(&self) -> Option<usize> {
        let mut has_parent = BTreeSet::new();
        for m in self.present.values() {
            for (_, t) in &m.edges {
                has_parent.insert(*t);
            }
        }
        let mut roots = self.present.keys().filter(|k| !has_parent.contains(k));
        let r = *roots.next()?;
        if roots.next().is_some() {
            return None;
        }
        self.is_tree_rooted_at(r).then_some(r)
    }
}
