#!/bin/sh
# Sensitivity self-test: applies each property-breaking patch to /repo (restored afterwards),
# confirms that it compiles and passes the repository's own test suite, then requires the
# owning check to report a VIOLATION within its quick budget and to replay it.
#   ./selftest_mutants.sh [dir-with-*.diff ...]      default: mutants/ and seeded/*/
# A patch's property is taken from its file name (mNNx-… → CNN) or from seeded/<id>/meta.json.
set -u
cd "$(dirname "$0")" || exit 2
ORIG="$(pwd)"
if [ "${IN_PLACE:-0}" != "1" ] && [ "${NO_COPY:-0}" != "1" ]; then
    # work on a private copy of the machinery, so that it can be edited while this runs
    WORK=/tmp/verif-selftest-$$
    mkdir -p "$WORK" && rsync -a --exclude 'target*' --exclude scratch --exclude replays --exclude evidence --exclude .git "$ORIG"/ "$WORK"/ || exit 2
    cd "$WORK" || exit 2
    mkdir -p sim/scratch
fi
# By default the patches are applied to a scratch worktree of /repo (removed afterwards, with its
# build output) and the checks are pointed at it with VERIF_REPO; IN_PLACE=1 applies them to
# /repo itself instead (git -C /repo apply ...; checks; git -C /repo checkout -- .).
if [ "${IN_PLACE:-0}" = "1" ]; then
    REPO=/repo
    if ! git -C "$REPO" diff --quiet; then echo "refusing: $REPO has uncommitted changes" >&2; exit 2; fi
    trap 'git -C "$REPO" checkout -- . 2>/dev/null' EXIT INT TERM
else
    REPO=/tmp/verif-mut-wt-$$
    git -C /repo worktree add -q --detach "$REPO" HEAD || exit 2
    VERIF_REPO="$REPO"; export VERIF_REPO
    tag=$(printf '%s' "$REPO" | cksum | cut -d' ' -f1)
    trap 'git -C /repo worktree remove --force "$REPO" 2>/dev/null; rm -rf "sim/target-alt-$tag" "sim/target-asan-alt-$tag"; [ -n "${WORK:-}" ] && rm -rf "$WORK"' EXIT INT TERM
fi
# evidence written while a mutant is applied must not replace the evidence of the real tree
VERIF_EVIDENCE_DIR="$(pwd)/sim/scratch/evidence-mutants"; export VERIF_EVIDENCE_DIR; mkdir -p "$VERIF_EVIDENCE_DIR"
patches=""
if [ $# -eq 0 ]; then
    patches="$(ls mutants/*.diff 2>/dev/null) $(ls seeded/*/patch.diff 2>/dev/null)"
else
    for a in "$@"; do
        if [ -d "$a" ]; then patches="$patches $(ls "$a"/*.diff)"; else patches="$patches $a"; fi
    done
fi
ok=0; missed=0; bad=0
RES="$ORIG/sim/scratch/mutant-results.tsv"; : > "$RES"
for p in $patches; do
    case "$p" in
        seeded/*) prop=$(python3 -c "import json,sys;print(json.load(open('$(dirname "$p")/meta.json'))['property'])") ;;
        *) n=$(basename "$p" | sed -E 's/^m([0-9][0-9]).*/\1/'); prop="C$n" ;;
    esac
    if ! git -C "$REPO" apply "$(pwd)/$p" 2>/dev/null; then echo "SKIP   $p (does not apply)"; bad=$((bad+1)); continue; fi
    if [ "${SKIP_TESTS:-0}" != "1" ]; then
        if ! ( cd "$REPO" && cargo test --workspace --no-fail-fast --offline >/dev/null 2>&1 ); then
            echo "SKIP   $p (the repository's own tests fail or it does not compile)"
            git -C "$REPO" checkout -- .; bad=$((bad+1)); continue
        fi
    fi
    out=$(./check "$prop" quick 2>&1); code=$?
    replay=$(printf '%s\n' "$out" | sed -n 's/^VIOLATION property=[A-Z0-9]* replay=//p' | head -1)
    if [ $code -eq 1 ] && [ -n "$replay" ]; then
        ./check --replay "$replay" >/dev/null 2>&1; rc=$?
        clause=$(printf '%s\n' "$out" | grep -m1 -E "violates|fails again|abort in|hang in" | cut -c1-160)
        if [ $rc -eq 1 ]; then echo "CAUGHT $p by $prop, replays: $clause"; ok=$((ok+1)); printf '%s\t%s\tcaught\t%s\n' "$p" "$prop" "$clause" >> "$RES";
        else echo "CAUGHT $p by $prop but replay exit=$rc: $clause"; bad=$((bad+1)); fi
    else
        echo "MISSED $p by $prop (exit $code)"; printf '%s\n' "$out" | tail -3; printf '%s\t%s\tmissed\t\n' "$p" "$prop" >> "$RES"
        missed=$((missed+1))
    fi
    git -C "$REPO" checkout -- .
done
echo "mutants: caught=$ok missed=$missed other=$bad"
[ $missed -eq 0 ] && [ $bad -eq 0 ]
