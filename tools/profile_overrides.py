#!/usr/bin/env python3
"""Print cargo --config flags that carry the per-package profile overrides of the repository's
Cargo.toml (profiles dev and test: the builds with debug assertions that C07 is stated for) over
to the simulator's release profile. The simulator is the root package of its own build, and cargo
honours profile sections of the root package only — without this a change of the build settings
of a dependency (say, debug assertions of emap switched off) would never reach the checks."""
import sys, tomllib
try:
    t = tomllib.load(open(sys.argv[1] + "/Cargo.toml", "rb"))
except Exception:
    sys.exit(0)
out = []
for prof in ("dev", "test"):
    pk = t.get("profile", {}).get(prof, {}).get("package", {})
    for name, kv in pk.items():
        for k, v in kv.items():
            if isinstance(v, bool):
                v = "true" if v else "false"
            elif isinstance(v, str):
                v = '"%s"' % v
            out.append("--config\nprofile.release.package.%s.%s=%s" % (name, k, v))
print("\n".join(out))
