#!/bin/sh
# Zero-alarm sweep on the unchanged tree: every check, quick tier, several VERIF_SEED values.
#   tools/seed_sweep.sh <first-seed> <last-seed> [tier]
cd "$(dirname "$0")/.." || exit 2
# under `vp run --with-repo` use the snapshot of /repo, so that nothing done to /repo meanwhile matters
[ -n "${VP_RUN_REPO:-}" ] && { VERIF_REPO="$VP_RUN_REPO"; export VERIF_REPO; }
if [ -z "${VERIF_REPO:-}" ]; then ./setup >/dev/null 2>&1 || { echo "setup failed"; exit 2; }; fi
VERIF_EVIDENCE_DIR="$(pwd)/sim/scratch/evidence-sweep"; export VERIF_EVIDENCE_DIR; mkdir -p "$VERIF_EVIDENCE_DIR"
bad=0
for s in $(seq "$1" "$2"); do
    for p in C01 C02 C03 C04 C05 C06 C07 C08 C09 C10 C11 C13 C19; do
        out=$(VERIF_SEED=$s ./check $p "${3:-quick}" 2>&1); code=$?
        echo "seed=$s $p exit=$code $(printf '%s\n' "$out" | tail -1)"
        if [ $code -ne 0 ]; then bad=$((bad+1)); printf '%s\n' "$out" | grep -E "VIOLATION|violates|error" | head -5; fi
    done
done
echo "sweep done: $bad non-zero exits"
