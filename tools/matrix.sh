#!/bin/sh
# Cross matrix: every property-breaking patch x every check, on an isolated copy (scratch
# worktree of /repo + copy of the simulator), so /repo itself stays untouched.
#   tools/matrix.sh <out.tsv> [patches...]      (default: mutants/*.diff seeded/*/patch.diff)
# C07 runs without AddressSanitizer here (its panic clauses only), to keep the matrix affordable.
set -u
V="$(cd "$(dirname "$0")/.." && pwd)"
OUT=$1; shift
MX=/tmp/mx-$$
trap 'git -C /repo worktree remove --force $MX/repo 2>/dev/null; rm -rf $MX' EXIT INT TERM
mkdir -p $MX/verif
git -C /repo worktree add -q --detach $MX/repo HEAD || exit 2
rsync -a --exclude target --exclude target-asan --exclude scratch "$V/sim" $MX/verif/
cp "$V/KNOWN_FINDINGS.txt" $MX/verif/
sed -i "s#path = \"/repo\"#path = \"$MX/repo\"#" $MX/verif/sim/Cargo.toml
if [ $# -eq 0 ]; then set -- $(ls "$V"/mutants/*.diff "$V"/seeded/*/patch.diff); fi
: > "$OUT"
for patch in "$@"; do
    name=$(echo "$patch" | sed -e "s#$V/##" -e 's#/patch.diff##' -e 's#mutants/##' -e 's#\.diff##')
    git -C $MX/repo apply "$patch" || { echo "$name does-not-apply" >> "$OUT"; continue; }
    if ! ( cd $MX/verif/sim && CARGO_NET_OFFLINE=true cargo build --release --offline >/dev/null 2>&1 ); then
        echo "$name build-failed" >> "$OUT"; git -C $MX/repo checkout -q -- .; continue
    fi
    line="$name"
    for p in C01 C02 C03 C04 C05 C06 C07 C08 C09 C10 C11 C13 C19; do
        runs=8000; [ $p = C06 ] && runs=1200; [ $p = C09 ] && runs=800; [ $p = C19 ] && runs=1500
        out=$(VERIF_DIR=$MX/verif VERIF_RUNS=$runs VERIF_SODG_REV=matrix $MX/verif/sim/target/release/sodg-sim check $p quick 2>&1); code=$?
        clause=$(printf '%s\n' "$out" | grep -m1 -oE "violates [a-zA-Z0-9._-]+|fails again: [a-zA-Z0-9._-]+|abort in|hang in" | awk '{print $NF}')
        [ $code -eq 1 ] && line="$line	$p:$clause"
        [ $code -eq 2 ] && line="$line	$p:HARNESS-ERROR"
    done
    echo "$line" >> "$OUT"; echo "$line"
    git -C $MX/repo checkout -q -- .
done
