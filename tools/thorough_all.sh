#!/bin/sh
# Every check once in its thorough tier (zero-alarm run at depth on the unchanged tree).
cd "$(dirname "$0")/.." || exit 2
[ -n "${VP_RUN_REPO:-}" ] && { VERIF_REPO="$VP_RUN_REPO"; export VERIF_REPO; }
VERIF_EVIDENCE_DIR="$(pwd)/sim/scratch/evidence-thorough"; export VERIF_EVIDENCE_DIR; mkdir -p "$VERIF_EVIDENCE_DIR"
for p in ${*:-C09 C08 C10 C05 C11 C13 C04 C06 C19 C07 C01 C02 C03}; do
    out=$(./check $p thorough 2>&1); code=$?
    echo "$p exit=$code $(printf '%s\n' "$out" | tail -1)"
    [ $code -ne 0 ] && printf '%s\n' "$out" | grep -E "VIOLATION|violates|error" | head -5
done
