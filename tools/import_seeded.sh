#!/bin/sh
# Confirm a sub-agent's change in its scratch worktree and import it as /verif/seeded/<id>/.
#   tools/import_seeded.sh <property> <worktree> <k>
# Confirms: clean checkout -> demo passes; patch applies; crate builds with and without the
# feature; the repository's own tests pass; demo fails with the change.
set -u
prop=$1; wt=$2; k=$3
src="$wt/MUTANT/$k"; id="$prop-s$((k+${4:-0}))"; dst="/verif/seeded/$id"
[ -f "$src/patch.diff" ] && [ -f "$src/demo.rs" ] || { echo "$id: missing files"; exit 1; }
cd "$wt" || exit 1
git checkout -q -- . ; rm -rf tests
mkdir -p tests && cp "$src/demo.rs" tests/demo.rs
cargo test --offline --test demo >/tmp/imp-$id-clean.log 2>&1; clean=$?
git apply "$src/patch.diff" || { echo "$id: patch does not apply"; git checkout -q -- .; rm -rf tests; exit 1; }
cargo build --offline >/tmp/imp-$id-b1.log 2>&1; b1=$?
cargo build --offline --features verif >/tmp/imp-$id-b2.log 2>&1; b2=$?
cargo test --offline --test demo >/tmp/imp-$id-mut.log 2>&1; mut=$?
rm -rf tests
cargo test --workspace --no-fail-fast --offline >/tmp/imp-$id-suite.log 2>&1; suite=$?
passed=$(grep -E "^test result" /tmp/imp-$id-suite.log | head -1)
git checkout -q -- .
echo "$id: demo-on-clean=$clean build=$b1 build-verif=$b2 suite=$suite demo-with-change=$mut [$passed]"
if [ $clean -eq 0 ] && [ $b1 -eq 0 ] && [ $b2 -eq 0 ] && [ $suite -eq 0 ] && [ $mut -ne 0 ]; then
    mkdir -p "$dst"
    cp "$src/patch.diff" "$dst/patch.diff"; cp "$src/demo.rs" "$dst/demo.rs"; cp "$src/README.md" "$dst/README.md" 2>/dev/null
    python3 - "$prop" "$dst" "$passed" <<'PY'
import json,sys
prop,dst,passed=sys.argv[1:4]
json.dump({"property":prop,"origin":"written by an independent sub-agent that saw only the property text and a scratch worktree","needs":"see README.md","confirmed":{"demo_passes_on_clean_checkout":True,"patch_applies":True,"builds_with_and_without_feature_verif":True,"repository_test_suite":passed,"demo_fails_with_change":True,"how":"tools/import_seeded.sh in the sub-agent's scratch worktree"},"detected_by":None},open(dst+"/meta.json","w"),indent=1)
PY
    echo "$id: imported"
else
    echo "$id: NOT confirmed, not imported"; exit 1
fi
